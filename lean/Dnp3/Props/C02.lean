import Dnp3.Proofs.C02Master
import Dnp3.Proofs.Pair
import Dnp3.Proofs.C02Static
import Dnp3.Props.DbComponent
import Dnp3.Proofs.C02Session
import Dnp3.Proofs.C02Overflow
import Dnp3.Proofs.C02Reach
import Dnp3.Proofs.C02Series
import Dnp3.Proofs.C02Pair
import Dnp3.Proofs.C02Events
import Dnp3.Proofs.C02EventsMaster
/-!
# C02 — end-to-end measurement integrity: the part that is provable about the models

FULL PROPERTY (text): "With a master and an outstation connected through the library's real
TCP/link/transport stack, once any sequence of database updates, commands and connection
interruptions stops, the master's measurement handler has received for every point the
outstation's current value, flags and reported time; every value it ever received for a point was
really that point's value at some moment (nothing fabricated, cross-wired between points or types,
or resurrected), and every event the outstation did not report as overflow-discarded reached the
handler at least once."

C02 is a whole-history property of two concurrently running tasks; the trace monitors of the
`pair` engine carry it on the real code.  What is PROVED here, for all states / histories of the
models (`Dnp3.Model.MasterSession`, `Dnp3.Model.Outstation`, `Dnp3.Model.Database`,
`Dnp3.Model.Pair`):

(i) nothing fabricated
  a. `master_delivers_only_what_a_response_carried`, `master_other_inputs_deliver_nothing`:
     every `handle_*` call of one master step is one of the calls `extract_measurements` makes for a
     header parsed out of the response fragment that step received; no other input delivers.
     `delivered_octets_occur_in_fragment`: the octets of every delivered item are a contiguous
     piece of that fragment (whole response vocabulary).
  b. `wire_carries_only_what_was_sent`, `wire_is_fifo`, `wire_invariant`: in the pair model (no
     `inject` op), whatever the relay hands to an endpoint was transmitted earlier by the other
     endpoint; per direction the delivered sequence is a subsequence of the transmitted sequence
     (order kept, nothing twice); what is still queued was transmitted and not yet delivered.
  c. `outstation_writes_only_database_values` (a READ answered from idle: 4 header octets + exactly
     the database's `writeResponse` octets; events = a prefix of the `Selected` records of the buffer
     with the value / flags / time they had when the request arrived; static objects = `(index,
     selected cell)` of existing points of the matching type) and
     `outstation_unsolicited_writes_only_buffer_events` (a non-null unsolicited response = header +
     `writeUnsolicited` octets = encodings of a prefix of the buffer's records of the enabled classes).
     The later fragments of a series: `step_confirm` (§ series) is `Outstation.step` on the CONFIRM of a non-final
     fragment (exact outputs: header + `writeResponse` octets of the database after `clearWritten`); the deferred
     READ path calls the same `formatReadResponse` and is not covered at session level; the database theorems `series_conserves`,
     `series_covers_exactly_once`, `series_is_snapshot_partial` apply to all of them — D12 lives there.
(ii) `class0_response_delivers_database_partial`: parser ∘ encoder round trip for a complete
     class-0 response of an idle database of the `pair` engine (binary inputs with static g1v2, analog
     inputs with g30v1, no point of the other six types, both enabled in `ClassZeroConfig`); the handler gets
     exactly one call per run of consecutive indices, binaries then analogs, carrying `(index, wire octets of
     the CURRENT value)` of every point exactly once, ascending.
     `class0_response_delivers_database` (§ reachable pair states): the same with ALL database hypotheses
     DERIVED for the outstation database of every pair state reachable by ops that add binary / analog inputs
     only (`Pair.ReachableVia AddsBinAn`, `class0_database_hypotheses_reachable_pair`; `Pair.Reachable` = over
     any inputs; `reachable_pair_outstation`: the outstation component is `Outstation.Reachable`).  What is left
     as hypothesis there is what "complete response of an idle database" means: no READ in progress, no record
     `Selected`, the response fits.
     `quiescent_class0_poll_converges_partial`: the single-fragment case through both handler functions (kept).
     MULTI-FRAGMENT, ANY NUMBER OF FRAGMENTS (§ series): `class0_series_converges` /
     `reachable_series_converges_partial` compose `Outstation.step` and `Master.step` over an IDEAL WIRE
     (`Exchange`: every transmission reaches the peer, in order, before anything else happens): the request leg
     (`step_read_first`), `n` rounds fragment → `deliverBegin, calls, deliverEnd, CONFIRM` → next fragment
     (`step_read_nonfinal`, `step_confirm`: exact outputs), the final fragment (`Master.step`: the delivery bracket,
     then only outputs that are neither deliveries nor confirms), and the contents: the items of ALL handler calls
     of ALL fragments, concatenated = `(index, octets of the CURRENT value)` of every binary input, then every
     analog input, each exactly once, ascending (database side: `series_objects`, `class0_pending`).  Requests
     covered: READ g60v1, and the integrity poll g60v2/3/4/1 on an empty event buffer.
     STILL MISSING for the full pair-model statement (why `_partial`): (1) the ideal wire is assumed, not derived
     from `Pair.step` (relay delays / holds, `pump` order, timers: `wire_is_fifo` / `wire_invariant` give order and
     provenance, not timeliness); (2) quiescence of the outstation session (idle, no READ in progress, every record
     `Unselected`, no broadcast to report) is a hypothesis, not derived from "both endpoints idle and the queues
     empty"; (3) the master's request leg (task start → `waitRead`) is not composed; (4) events in the same poll
     (class 1-3 headers with a non-empty buffer) need the parser round trip for g2 / g32 event objects.
(iii) `cut_loses_only_in_flight`: the result of `cut` is independent of the queue contents; both
     endpoints go through session end / restart.

(iv) the master's own recovery from an event buffer overflow (the mechanism behind convergence when
     events were discarded): `overflow_iin_demands_integrity` — an accepted fragment of a READ response
     with IIN2.3 set, FINAL OR NOT, leaves the association's integrity task not idle (pending, or waiting
     for its retry instant), whatever the state of the automatic tasks; the only exception, in the
     statement, is the final fragment of the integrity poll itself.  `nonfinal_overflow_fragment_step`: the
     same for a non-final fragment through the whole `Master.step`.  `process_iin_overflow` /
     `process_iin_no_trigger`: `process_iin` demands the task exactly on that bit (or IIN1.7).  The
     outstation clears the indication with the confirm of a non-final fragment, so it may be carried by
     non-final fragments only (trace counter `c02_iin23_only_in_nonfinal_fragments_*`).

(v)  events (§ events): `release_needs_awaited_confirm` (an `event_cleared` is emitted only at a confirm point of
     the step: the fragment is a CONFIRM with exactly the awaited UNS bit / sequence number, and the id is that of a
     `Written` record), `master_confirm_means_accepted`, `master_step_confirms`, `read_confirm_delivered` (a
     solicited CONFIRM of a READ is emitted only after the delivery bracket of the accepted fragment, all its
     parsed headers delivered).  "EVERY EVENT NOT REPORTED AS DISCARDED REACHES THE HANDLER AT LEAST ONCE" IS
     FALSE OF THE PAIR MODEL: `events_at_least_once_counterexample` (D32, kernel-checked): after sixteen READs
     whose answers are stalled the 4-bit sequence number wraps, the master accepts the OLD answer with sequence
     number 0 and its CONFIRM releases the events of the NEW one.

LEFT TO THE MONITORS: everything that needs the history of the real tasks — convergence after
arbitrary interleavings of updates / cuts (retries, unsolicited series, event re-transmission after
a lost confirm), the relay legs of `Pair.step` around the series of (ii) (delays, holds, timers), "was the value
at some moment" across fragments of a multi-fragment series with updates in between
(`series_is_snapshot_partial` covers the database side; D12 is the known exception), reported TIME of static
values (g1v2 / g30v1 carry none), and the link / transport layers (C06, C08).  The clause "every non-discarded
event reaches the handler at least once" is false without a freshness assumption on confirms (D32).

`rechunking_invisible`: by construction — `Pair.step` has no chunk parameter: an item reaches the
receiver when its last octet is forwarded (`forceDeliver` / `popCovered`), and the endpoints only
ever see whole fragments; there is nothing to state.

One statement of the property IS falsified by the models: the "at least once" clause (D32, see (v)).  Two things to
know when reading (i.b):
`Pair.step .cut` does NOT enqueue what the master transmits while handling `eof` (lost, as on the
real socket), and `.script` does not enqueue the (empty) outstation output; both are on the safe
side of "delivered ⊆ transmitted".
-/
namespace Dnp3.Props.C02
open Dnp3 Dnp3.Master Dnp3.Pair Dnp3.DbM Dnp3.DbProofs
open Dnp3.Proofs.C02Master Dnp3.Proofs.Pair Dnp3.Proofs.C02Static Dnp3.Proofs.C02Session

/-! ## (i.a) the master session model -/

/-- every measurement delivery (`handle_*` call with data: `deliverHdr`, `deliverAbsTime`) among the
    outputs of ONE step of the master session model, from ANY state on ANY input, comes from an
    application fragment received in that step which parses as a response whose object headers
    parse, and is one of the calls `extract_measurements` (`deliverHeader`) makes for one of those
    headers -/
theorem master_delivers_only_what_a_response_carried (s : MState) (inp : MInput) (o : MOut)
    (ho : o ∈ (Master.step s inp).2) (hd : IsDelivery o) :
    ∃ src dst data r hs h who, inp = .rx src dst data ∧ parseResponse data = some r ∧ r.objects = some hs ∧
      h ∈ hs ∧ o ∈ (deliverHeader (s, []) who h).2 := by
  let G : MOut → Prop := fun o => IsDelivery o →
    ∃ src dst data r hs h who, inp = .rx src dst data ∧ parseResponse data = some r ∧ r.objects = some hs ∧
      h ∈ hs ∧ o ∈ (deliverHeader (s, []) who h).2
  have hG : ∀ o, ¬ IsDelivery o → G o := fun o hn hd => absurd hd hn
  have := allG_step (G := G) hG s inp (by
    intro src dst data r hinp hp hs hobj hd hm who o ho _
    exact ⟨src, dst, data, r, hs, hd, who, hinp, hp, hobj, hm, by rw [headerCalls_eq]; exact ho⟩)
  exact this o ho hd

/-- a state waiting for the answer to its integrity poll receives a one-object g1v2 response:
    the handler call is among the outputs -/
example :
    let s : MState := { assocs := [{ addr := 1024, cfg := {}, seq := 1 }], ring := [1024],
                        mode := .waitRead 1024 (.integrity 15) 0 true 5000 }
    MOut.deliverHdr (.assoc 1024) 1 2 0 [(3, [0x81])] ∈
      (Master.step s (.rx 1024 1 [0xC0, 0x81, 0, 0, 1, 2, 0, 3, 3, 0x81])).2 ∧
    IsDelivery (MOut.deliverHdr (.assoc 1024) 1 2 0 [(3, [0x81])]) := by
  refine ⟨by decide +kernel, trivial⟩

/-- no input other than a received application fragment makes the master deliver anything:
    timers, handle messages, user requests, link frames, connection loss / establishment,
    clock changes and handle drops (with everything `resolve` / `nextTask` / `beginTask` /
    `endSession` then run) emit no `handle_*` call -/
theorem master_other_inputs_deliver_nothing (s : MState) (inp : MInput)
    (hin : ∀ src dst data, inp ≠ .rx src dst data) :
    ∀ o ∈ (Master.step s inp).2, ¬ IsDelivery o := by
  intro o ho hd
  obtain ⟨src, dst, data, _, _, _, _, h, _⟩ := master_delivers_only_what_a_response_carried s inp o ho hd
  exact hin src dst data h

example : ∀ src dst data, MInput.tick 5000 ≠ .rx src dst data := by intro _ _ _ h; cases h

/-- the object octets of every item of every `handle_*` call are a CONTIGUOUS piece of the fragment
    received in that step (whole response vocabulary: ranged g1v2 / g30v1, prefixed g2v1 / g2v2 /
    g32v1): nothing is computed, only cut out -/
theorem delivered_octets_occur_in_fragment (s : MState) (inp : MInput) (who : Who) (g v q : Nat)
    (items : List (Nat × List Nat)) (ho : MOut.deliverHdr who g v q items ∈ (Master.step s inp).2) :
    ∃ src dst data, inp = .rx src dst data ∧ ∀ p ∈ items, p.2 <:+: data := by
  obtain ⟨src, dst, data, r, hs, h, who', hinp, hp, hobj, hm, ho'⟩ :=
    master_delivers_only_what_a_response_carried s inp _ ho trivial
  refine ⟨src, dst, data, hinp, ?_⟩
  intro p hpi
  rw [headerCalls_eq] at ho'
  have h1 := headerCalls_items_infix who' h who g v q items ho' p hpi
  obtain ⟨hraw, hobjs⟩ := parseResponse_raw data r hp
  have h2 := parse_data_infix _ _ _ (hobjs.symm.trans hobj) h hm
  exact h1.trans (h2.trans hraw.isInfix)

/-! ## (i.b) the wire of the pair model -/

/-- "earlier": `pre` is the list of groups the run produced before the `delivered` group
    (`start`'s groups first, then those of every op, in order).  Every item the relay hands to the
    master (`toO = false`) carries a payload the outstation model transmitted in an earlier `.o`
    group — a fragment `.tx dst b` sent from `outstationAddr`, or a header-only link frame —
    and symmetrically towards the outstation.  Holds for every configuration and every op list
    without `inject`. -/
theorem wire_carries_only_what_was_sent (ocfg : OCfg) (evMax : Nat) (env : OEnv) (txSize : Nat)
    (acfg : Master.ACfg) (base : Option Nat) (dm2o do2m : Nat) (ops : List PInput)
    (hni : ∀ op ∈ ops, isInject op = false)
    (pre suf : List Group) (toO : Bool) (items : List Item)
    (hsplit : allGroups (Pair.start ocfg evMax env txSize acfg base dm2o do2m) ops =
      pre ++ Group.delivered toO items :: suf)
    (it : Item) (hit : it ∈ items) :
    (toO = false → ∃ outs, Group.o outs ∈ pre ∧
      ((∃ dst b, it.p = .frag outstationAddr dst b ∧ OOut.tx dst b ∈ outs) ∨
       (∃ c d sr, it.p = .link c d sr ∧ OOut.txLink c d sr ∈ outs))) ∧
    (toO = true → ∃ outs, Group.m outs ∈ pre ∧
      ((∃ dst b, it.p = .frag Pair.masterAddr dst b ∧ MOut.tx dst b ∈ outs) ∨
       (∃ c d sr, it.p = .link c d sr ∧ MOut.txLink c d sr ∈ outs))) := by
  have hok := run_from_start_ok ocfg evMax env txSize acfg base dm2o do2m ops hni
  have hg := ok_prefix _ [] hok (pre ++ [Group.delivered toO items]) suf (by
    rw [hsplit]; simp)
  simp only [List.nil_append] at hg
  have hmem : it.p ∈ items.map (·.p) := List.mem_map.mpr ⟨it, hit, rfl⟩
  constructor
  · intro ht
    subst ht
    have h1 := hg.1
    have e1 : deliveredM (pre ++ [Group.delivered false items]) = deliveredM pre ++ items.map (·.p) := by
      simp [deliveredM]
    have e2 : sentO (pre ++ [Group.delivered false items]) = sentO pre := by simp [sentO]
    rw [e1, e2] at h1
    exact mem_sentO (h1.subset (List.mem_append_right _ hmem))
  · intro ht
    subst ht
    have h2 := hg.2
    have e1 : deliveredO (pre ++ [Group.delivered true items]) = deliveredO pre ++ items.map (·.p) := by
      simp [deliveredO]
    have e2 : sentM (pre ++ [Group.delivered true items]) = sentM pre := by simp [sentM]
    rw [e1, e2] at h2
    exact mem_sentM (h2.subset (List.mem_append_right _ hmem))

/-- FIFO, nothing twice: at every point of the run, per direction, the sequence of payloads
    delivered so far is a SUBLIST (order-preserving, each transmission used at most once) of the
    sequence of payloads transmitted so far; what is missing was cut off or is still in flight -/
theorem wire_is_fifo (ocfg : OCfg) (evMax : Nat) (env : OEnv) (txSize : Nat)
    (acfg : Master.ACfg) (base : Option Nat) (dm2o do2m : Nat) (ops : List PInput)
    (hni : ∀ op ∈ ops, isInject op = false) (pre suf : List Group)
    (hsplit : allGroups (Pair.start ocfg evMax env txSize acfg base dm2o do2m) ops = pre ++ suf) :
    (deliveredM pre).Sublist (sentO pre) ∧ (deliveredO pre).Sublist (sentM pre) := by
  have hok := run_from_start_ok ocfg evMax env txSize acfg base dm2o do2m ops hni
  have hg := ok_prefix _ [] hok pre suf hsplit
  rw [List.nil_append] at hg
  exact hg

/-- an op list with a cut, forced deliveries and time passing has no `inject` -/
example : ∀ op ∈ [PInput.tick 100, .add .binary 0 1, .cut, .deliver true none, .tick 6000],
    isInject op = false := by
  intro op h
  simp only [List.mem_cons, List.not_mem_nil, or_false] at h
  rcases h with rfl | rfl | rfl | rfl | rfl <;> rfl

/-- a concrete run (default configurations, a tick, a point added, a cut): its 14th group hands the
    master one item; the run splits as `wire_carries_only_what_was_sent` needs -/
def exAll : List Group :=
  allGroups (Pair.start {} (legacyEv 10) {} 2048 {} none 0 0) [.tick 100, .add .binary 0 1, .cut]
def exItems : List Item :=
  match (exAll[13]? : Option Group) with | some (Group.delivered _ i) => i | _ => []
example : exAll = exAll.take 13 ++ Group.delivered false exItems :: exAll.drop 14 ∧ ∃ it rest, exItems = it :: rest :=
  ⟨rfl, _, _, rfl⟩

/-- the invariant behind both: after any op sequence without `inject`, everything still queued on
    the wire was transmitted and not yet delivered (`Inv`) -/
theorem wire_invariant (ocfg : OCfg) (evMax : Nat) (env : OEnv) (txSize : Nat)
    (acfg : Master.ACfg) (base : Option Nat) (dm2o do2m : Nat) (ops : List PInput)
    (hni : ∀ op ∈ ops, isInject op = false) :
    Inv (allGroups (Pair.start ocfg evMax env txSize acfg base dm2o do2m) ops)
      (Pair.run (Pair.start ocfg evMax env txSize acfg base dm2o do2m).1 ops).1 := by
  have h1 := start_sim ocfg evMax env txSize acfg base dm2o do2m
  have h2 := run_sim ops ([] ++ (Pair.start ocfg evMax env txSize acfg base dm2o do2m).2)
    (Pair.start ocfg evMax env txSize acfg base dm2o do2m).1 hni
  have := (sim_seq (s1 := (Pair.start ocfg evMax env txSize acfg base dm2o do2m).1)
    (g1 := (Pair.start ocfg evMax env txSize acfg base dm2o do2m).2) h1 h2 invL_empty).1
  simpa [allGroups] using this

/-! ## (ii) a complete class-0 response of a quiescent database, through parser and handler -/

/-- the items of a `handle_*` call -/
def callItems : MOut → List (Nat × List Nat)
  | .deliverHdr _ _ _ _ items => items
  | _ => []

theorem runCalls_items (who : Who) (rs : List (List SObj)) :
    (rs.map (runCall who)).flatMap callItems = rs.flatten.map (fun o => (o.idx, stObjBytes o)) := by
  induction rs with
  | nil => rfl
  | cons r rs ih =>
    simp only [List.map_cons, List.flatMap_cons, List.flatten_cons, List.map_append, ih]
    congr 1
    cases r <;> rfl

/-
FULL TARGET (ii): "from any pair state in which both sides are idle and the connection is up, a
class-0 / integrity READ whose fragments are all delivered and confirmed with no update in between
hands the handler exactly the current static values of all points."
Proved: the single-fragment core, in two theorems.
-/

/-- parser ∘ encoder round trip for the static vocabulary of a class-0 response (g1v2 and g30v1
    range headers, qualifier 0x01 — the only one `encodeStatic` writes).

    Database `db`: maps sorted (`static_sorted_invariant`), no READ in progress, room for the two
    selections, no event `Selected`, indices below 65536; the database is one of the `pair` engine:
    binary inputs configured with static variation g1v2 and analog inputs with g30v1 (`hsv`, `hsa`: what
    `Db.add` configures, `addStaticVar`), no point of the other six types (`hempty`), both types enabled
    in `ClassZeroConfig` (`hczb`, `hcza`: the default) — `class0_database_hypotheses_reachable` proves these
    five for every database built from `Db.new (legacyEv n)` by `Db.add .binary` / `Db.add .analog` and any
    other operations; `cap` large enough for the response to be complete.  Then the object octets `objs` of `select_class_zero` + `write_response_headers`
    parse (`parseRespObjects`), and `extract_measurements` over the parsed headers makes exactly
    these calls, in this order: for every maximal run of consecutive indices of the binary points
    one `handle_binary_input` call (g1v2, qualifier 1), then for every run of the analog points one
    `handle_analog_input` call (g30v1); the items of the calls, concatenated, are
    `(index, wire octets of the point's CURRENT value)` for every binary point, then every analog
    point, each exactly once, ascending (`db.bins` / `db.ans` are ascending and duplicate free by
    `hs`).  `runs` only regroups (`runs_flatten`); every run is non-empty, of one group / variation,
    with consecutive indices (`RunOK`). -/
theorem class0_response_delivers_database_partial (db : Db) (cap : Nat) (who : Who) (a : Master.Acc)
    (hs : StaticSorted db) (hq : db.queue = []) (hcap : 2 ≤ db.selCap)
    (hev : ∀ r ∈ db.events, r.st ≠ .selected)
    (hib : ∀ p ∈ db.bins, p.1 < 65536) (hia : ∀ p ∈ db.ans, p.1 < 65536)
    (hsv : ∀ p ∈ db.bins, p.2.svar = 2) (hsa : ∀ p ∈ db.ans, p.2.svar = 1)
    (hempty : ∀ t, t ≠ .binary → t ≠ .analog → db.map t = [])
    (hczb : db.czero.binary = true) (hcza : db.czero.analog = true)
    (hc : (db.selectClass0.1.writeResponse cap).2.2.2 = true) :
    let objs := (db.selectClass0.1.writeResponse cap).2.1
    let B := objsOf .binary db.bins
    let A := objsOf .analog db.ans
    let calls := (runs B).map (runCall who) ++ (runs A).map (runCall who)
    ∃ hdrs, parseRespObjects objs.length objs = some hdrs ∧
      hdrs.foldl (fun a h => deliverHeader a who h) a = (a.1, a.2 ++ calls) ∧
      calls.flatMap callItems =
        db.bins.map (fun p => (p.1, [p.2.current.wire .binary])) ++
        db.ans.map (fun p => (p.1, stObjBytes { idx := p.1, g := 30, v := 1, m := p.2.current })) ∧
      (∀ r ∈ runs B ++ runs A, RunOK r) := by
  obtain ⟨h1, h2⟩ := class0_roundtrip db hs hq hcap hev hib hia hsv hsa hempty hczb hcza cap hc who a
  refine ⟨_, h1, h2, ?_, ?_⟩
  · rw [List.flatMap_append, runCalls_items, runCalls_items, runs_flatten, runs_flatten]
    simp only [objsOf, List.map_map]
    rfl
  · intro r hr
    rcases List.mem_append.mp hr with hr | hr
    · exact runs_ok _ _ (Nat.le_refl _) (fun o ho => (objsOf_plain .binary (.inl rfl) db.bins hib o ho).1) r hr
    · exact runs_ok _ _ (Nat.le_refl _) (fun o ho => (objsOf_plain .analog (.inr rfl) db.ans hia o ho).1) r hr

/-- binaries 0, 1, 5 and analog 2 (event buffer: binary and analog inputs, 10 events each), two of them
    updated -/
def exDb : Db := DbProofs.run (Db.new (legacyEv 10) none) [.add .binary 0 1, .add .binary 1 1, .add .binary 5 0, .add .analog 2 2,
      .update .binary 1 1 1 7, .update .analog 2 (-5) 1 8]

/-- binaries 0, 1, 5 and analog 2, two of them updated (their two events sit `Unselected` in the
    buffer), 100 octets of room: all hypotheses hold -/
example :
    StaticSorted exDb ∧ exDb.queue = [] ∧ 2 ≤ exDb.selCap ∧ (∀ r ∈ exDb.events, r.st ≠ .selected) ∧
    (∀ p ∈ exDb.bins, p.1 < 65536) ∧ (∀ p ∈ exDb.ans, p.1 < 65536) ∧
    (∀ p ∈ exDb.bins, p.2.svar = 2) ∧ (∀ p ∈ exDb.ans, p.2.svar = 1) ∧
    (∀ t, t ≠ .binary → t ≠ .analog → exDb.map t = []) ∧
    exDb.czero.binary = true ∧ exDb.czero.analog = true ∧
    (exDb.selectClass0.1.writeResponse 100).2.2.2 = true ∧ exDb.events.length = 2 := by
  refine ⟨by decide, by decide, by decide, by decide, by decide, by decide, by decide, by decide, ?_,
    by decide, by decide, by decide, by decide⟩
  intro t h1 h2
  cases t <;> first | exact absurd rfl h1 | exact absurd rfl h2 | rfl

/-- the database hypotheses of the class-0 theorems other than idleness (`hs`, `hsv`, `hsa`, `hempty`, `hczb`,
    `hcza`) hold in EVERY state of a database created as the engines create it (`Db.new (legacyEv n)`: default
    `ClassZeroConfig`) to which points are added as binary / analog inputs only (`Db.add`: static g1v2 /
    g30v1), whatever updates, READ selections, responses, unsolicited responses, confirms and resets
    happen in between (`DbOp`, the operations the outstation session model performs on its database) -/
theorem class0_database_hypotheses_reachable (n : Nat) (sel : Option Nat) (ops : List DbOp)
    (hops : ∀ op ∈ ops, ∀ t idx cls, op = .add t idx cls → t = .binary ∨ t = .analog) :
    let db := DbProofs.run (Db.new (legacyEv n) sel) ops
    StaticSorted db ∧ (∀ p ∈ db.bins, p.2.svar = 2) ∧ (∀ p ∈ db.ans, p.2.svar = 1) ∧
    (∀ t, t ≠ .binary → t ≠ .analog → db.map t = []) ∧ db.czero.binary = true ∧ db.czero.analog = true := by
  intro db
  have h := class0_hyps_reachable n sel ops hops
  exact ⟨sorted_run _ ops (new_sorted _ sel), h.sv, h.sa, h.empty, h.czb, h.cza⟩

/-- the operations that built `exDb` add binary / analog inputs only -/
example : ∀ op ∈ [DbOp.add .binary 0 1, .add .binary 1 1, .add .binary 5 0, .add .analog 2 2,
      .update .binary 1 1 1 7, .update .analog 2 (-5) 1 8],
    ∀ t idx cls, op = .add t idx cls → t = .binary ∨ t = .analog := by
  intro op h t idx cls e
  subst e
  simp only [List.mem_cons, List.not_mem_nil, or_false, DbOp.add.injEq, reduceCtorEq] at h
  rcases h with ⟨rfl, _, _⟩ | ⟨rfl, _, _⟩ | ⟨rfl, _, _⟩ | ⟨rfl, _, _⟩
  · exact .inl rfl
  · exact .inl rfl
  · exact .inl rfl
  · exact .inr rfl

/-- the wire octets: a binary is its flags octet with the state in bit 7; an analog g30v1 is flags
    (OVER_RANGE set when the value saturates) and the 32-bit two's complement value -/
example (i : Nat) (m : Meas) :
    stObjBytes { idx := i, g := 30, v := 1, m := m } =
      [overRange m.flags (satInt 32 m.value).2] ++ DbM.le32 (twos 32 (satInt 32 m.value).1) := rfl

/-
What the FULL (ii) needs beyond the theorem below: (1) the request leg (the master's READ reaching
`handleRequestFromIdle` through `Pair.step` / `pump`, with `classify = newRead`), (2) the
remainder of the master step (`resolve`, `finishRead`, the next task) — it adds no delivery by
`master_delivers_only_what_a_response_carried`, but the exact output list is not characterised,
(3) the multi-fragment case: `series_covers_exactly_once` / `series_is_snapshot_partial` give the
database side (objects of successive fragments = the selected objects, each once), the round
trip above applies to each fragment, the confirm / `waitRead … false` loop of both session models
is not composed here, (4) quiescence of the pair state as a whole (no unsolicited series or
deferred read pending) is assumed through the hypotheses on `ao` / `am` instead of derived.
-/

/-- `quiescent_class0_poll_converges`, partial (single fragment, both session models, no wire):

    Outstation session model `ao`, idle, no broadcast pending, quiescent database as above, about
    to answer a NEW READ whose only header is g60v1 (class 0), whose answer fits one fragment.
    Master session model `am` waiting for the first fragment of the answer to exactly that
    request (`waitRead dest t ctrl.seq true _`, association present).  Then
    * the outstation transmits ONE fragment `frag` and waits for no confirm (`series = none`);
    * the master's `onFragment` on `frag` accepts it as the final fragment (`appDone … (.ok seq)`),
      and before `finishRead` its outputs are exactly: `deliverBegin`, the calls of
      `class0_response_delivers_database_partial` for the outstation's database at the time of the
      request (every point's CURRENT value, binaries then analogs, ascending, each once),
      `deliverEnd` — no confirm is sent. -/
theorem quiescent_class0_poll_converges_partial
    (ao : Dnp3.Acc) (f : Frag) (ctrl : AppCtrl) (objects : Except Nat (List ObjHdr)) (raw : List Nat)
    (hcl : classify ao.1 f ctrl 1 objects = .newRead [class0Hdr])
    (hseq : ctrl.seq < 16)
    (hbuf : ao.1.cfg.sol ≤ ao.1.solBuf.length) (h4 : 4 ≤ ao.1.cfg.sol)
    (hnb : ao.1.lastBroadcast = none)
    (hs : StaticSorted ao.1.db) (hq : ao.1.db.queue = []) (hcap : 2 ≤ ao.1.db.selCap)
    (hev : ∀ r ∈ ao.1.db.events, r.st ≠ .selected)
    (hib : ∀ p ∈ ao.1.db.bins, p.1 < 65536) (hia : ∀ p ∈ ao.1.db.ans, p.1 < 65536)
    (hsv : ∀ p ∈ ao.1.db.bins, p.2.svar = 2) (hsa : ∀ p ∈ ao.1.db.ans, p.2.svar = 1)
    (hempty : ∀ t, t ≠ .binary → t ≠ .analog → ao.1.db.map t = [])
    (hczb : ao.1.db.czero.binary = true) (hcza : ao.1.db.czero.analog = true)
    (hfit : (ao.1.db.selectClass0.1.writeResponse (ao.1.cfg.sol - 4)).2.2.2 = true)
    (ao' : Dnp3.Acc) (series : Option Series)
    (hres : handleRequestFromIdle ao f ctrl 1 objects raw = some (ao', series))
    (am : Master.Acc) (dest : Nat) (t : ReadTask) (dl : Nat)
    (hmode : am.1.mode = .waitRead dest t ctrl.seq true dl)
    (hassoc : (am.1.getAssoc dest).isSome = true) :
    ∃ frag, ao'.2 = ao.2 ++ [.tx f.src frag] ∧
      ∃ am1 c i1 i2,
        Master.onFragment am dest frag =
          .appDone (finishRead am1 dest t (.ok ctrl.seq)) dest t.taskType 1 (.ok ctrl.seq) ∧
        am1.2 = am.2 ++ [.deliverBegin (whoOf dest t) (rtOf t) c i1 i2] ++
          ((runs (objsOf .binary ao.1.db.bins)).map (runCall (whoOf dest t)) ++
           (runs (objsOf .analog ao.1.db.ans)).map (runCall (whoOf dest t))) ++
          [.deliverEnd (whoOf dest t) (rtOf t)] := by
  obtain ⟨con, i1, i2, hi2, htx, _, hcon⟩ := read_from_idle ao f ctrl 1 objects raw [class0Hdr] (.inl hcl) hbuf h4 ao' series hres
  obtain ⟨e1, e2⟩ := dbSelectAll_class0 ao.1.db
  rw [e1] at htx hcon
  rw [e2, selectClass0_iin ao.1.db hq hcap hempty] at htx
  obtain ⟨hoct, hnoev⟩ := class0_octets ao.1.db hs hq hcap hev hsv hsa hempty hczb hcza (ao.1.cfg.sol - 4) hfit
  have hcon' : con = false := by rw [hcon hnb, hnoev, hfit]; rfl
  rw [hfit, hcon'] at htx
  refine ⟨_, htx, ?_⟩
  have hctrl : AppCtrl.ofNat (AppCtrl.toNat ⟨true, true, false, false, ctrl.seq⟩) = ⟨true, true, false, false, ctrl.seq⟩ :=
    Dnp3.Proofs.C02Session.ofNat_toNat true true false false ⟨ctrl.seq, hseq⟩
  obtain ⟨hp, hfold⟩ := class0_roundtrip ao.1.db hs hq hcap hev hib hia hsv hsa hempty hczb hcza (ao.1.cfg.sol - 4) hfit (whoOf dest t)
    (Master.emit (modAssoc (notifyLinkActivity am dest) dest (·.processIin i1 (0 ||| 0 ||| i2)))
      (.deliverBegin (whoOf dest t) (rtOf t)
        (AppCtrl.ofNat (AppCtrl.toNat ⟨true, true, false, false, ctrl.seq⟩)).toNat i1 (0 ||| 0 ||| i2)))
  have hi2' : (0 ||| 0 ||| i2) &&& 7 = 0 := by simpa using hi2
  have hfrag := onFragment_read_final am dest t ctrl.seq dl _ i1 (0 ||| 0 ||| i2) _ _ hmode hassoc hctrl hi2' hp
  refine ⟨_, (AppCtrl.ofNat (AppCtrl.toNat ⟨true, true, false, false, ctrl.seq⟩)).toNat, i1, 0 ||| 0 ||| i2, hfrag, ?_⟩
  unfold deliver
  simp only []
  rw [hfold]
  simp [Master.emit, List.append_assoc]

/-! ## (i.c) what the outstation session model writes into a solicited response -/

/-- `outstation_writes_only_database_values` (solicited): a READ (any headers `hs`; new, or a repeat of
    the last request — both take the same path) handled from idle transmits ONE fragment = 4 header octets followed by EXACTLY the octets the database's
    `write_response_headers` produced (`response_octets`): the encodings of event records, then the
    range encodings of static objects.  With `db1` the database after the request's selections:
    * the event records written are a prefix of `db1`'s `Selected` records in buffer order
      (`write_marks_prefix`), each one a record of the buffer, carrying id / index / class / type /
      value / flags / time (`core`) of a record that was in the buffer when the request arrived —
      selecting never changes those (`select_only_selects`);
    * every static object written is `(index, selected cell)` of an EXISTING point of the matching
      type (g1 ↦ binary map, g30 ↦ analog map; a g34 object is the dead-band of an existing analog input),
      obtained from one of the queued headers (`selected_header_is_range`: each point of the range once,
      ascending).
    The `selected` cell of a point is its CURRENT value at the moment its header was selected
    (`selectStatic_snapshot`; for headers of this very request that moment is this step).  Known
    exception D12: a point ADDED while a multi-fragment series is open is reported by a later
    fragment with the default `selected` cell; `series_is_snapshot_partial` excludes it by allowing
    only write / update / clear (`SOp`) between the fragments.
    No object is cross-wired between types: group 1 objects come from `bins`, group 30 from `ans`.
    `hempty`: the database holds binary and analog inputs only (the `pair` engine's databases,
    `class0_database_hypotheses_reachable`); `outstation_writes_only_database_values_all_types` below is the
    statement without it, for points of all eight types. -/
theorem outstation_writes_only_database_values
    (a : Dnp3.Acc) (f : Frag) (ctrl : AppCtrl) (func : Nat) (objects : Except Nat (List ObjHdr)) (raw : List Nat)
    (hs : List ObjHdr)
    (hcl : classify a.1 f ctrl func objects = .newRead hs ∨ ∃ x, classify a.1 f ctrl func objects = .repeatRead x hs)
    (hbuf : a.1.cfg.sol ≤ a.1.solBuf.length) (h4 : 4 ≤ a.1.cfg.sol) (hsorted : StaticSorted a.1.db)
    (hempty : ∀ t, t ≠ .binary → t ≠ .analog → a.1.db.map t = [])
    (a' : Dnp3.Acc) (series : Option Series)
    (hres : handleRequestFromIdle a f ctrl func objects raw = some (a', series)) :
    let db1 := (dbSelectAll a.1.db hs).1
    let cap := a.1.cfg.sol - 4
    ∃ hdr4 : List Nat, hdr4.length = 4 ∧
      a'.2 = a.2 ++ [.tx f.src (hdr4 ++ (encodeEvents none (db1.writeEvents cap).2.1 ++
        (writeStaticObjs db1 cap).flatMap (encodeStatic none)))] ∧
      a'.1.db = (db1.writeResponse cap).1 ∧
      (∃ n, (db1.writeEvents cap).2.1 = (db1.events.filter isSelected).take n) ∧
      (∀ r ∈ (db1.writeEvents cap).2.1, r ∈ db1.events ∧ ∃ r0 ∈ a.1.db.events, core r0 = core r) ∧
      (∀ o ∈ (writeStaticObjs db1 cap).flatten,
        (o.g = 1 ∧ ∃ p ∈ db1.bins, o.idx = p.1 ∧ o.m = p.2.selected) ∨
        (o.g = 30 ∧ ∃ p ∈ db1.ans, o.idx = p.1 ∧ o.m = p.2.selected) ∨
        (o.g = 34 ∧ ∃ p ∈ db1.ans, o.idx = p.1)) := by
  intro db1 cap
  obtain ⟨con, i1, i2, _, htx, hdb, _⟩ := read_from_idle a f ctrl func objects raw hs hcl hbuf h4 a' series hres
  have hs1 : StaticSorted db1 := dbSelectAll_sorted hs a.1.db hsorted
  have he1 : ∀ t, t ≠ .binary → t ≠ .analog → db1.map t = [] :=
    fun t h1 h2 => dbSelectAll_empty hs a.1.db t (hempty t h1 h2)
  have hoct := Dnp3.Props.Db.response_octets db1 hs1 cap
  obtain ⟨n, _, hn, _⟩ := writeEvents_spec db1 cap
  refine ⟨[(⟨true, (db1.writeResponse cap).2.2.2, con, false, ctrl.seq⟩ : AppCtrl).toNat, 0x81, i1,
      (dbSelectAll a.1.db hs).2 ||| i2], rfl, ?_, hdb, ⟨n, hn⟩, ?_, ?_⟩
  · rw [htx, ← hoct]
  · intro r hr
    rw [hn] at hr
    have hr1 : r ∈ db1.events := (List.mem_filter.mp (List.mem_of_mem_take hr)).1
    refine ⟨hr1, ?_⟩
    have : core r ∈ db1.events.map core := List.mem_map.mpr ⟨r, hr1, rfl⟩
    rw [dbSelectAll_core] at this
    obtain ⟨r0, h0, e0⟩ := List.mem_map.mp this
    exact ⟨r0, h0, e0⟩
  · intro o ho
    obtain ⟨it, _, hit⟩ := mem_writeStaticObjs db1 hs1 cap o ho
    exact mem_itemObjs db1 he1 it o hit

/-- the same for a database with points of ANY of the eight types (no `hempty`): every static object
    written is `(index, selected cell)` of an existing point of the type whose static group it carries
    (`staticGroup`: g1, g3, g10, g20, g21, g30, g40, g110), or (g34) the configured dead-band of an existing
    analog input.  `outstation_writes_only_database_values` is the instance for the `pair` engine's
    databases, where only `staticGroup .binary = 1` and `staticGroup .analog = 30` can occur. -/
theorem outstation_writes_only_database_values_all_types
    (a : Dnp3.Acc) (f : Frag) (ctrl : AppCtrl) (func : Nat) (objects : Except Nat (List ObjHdr)) (raw : List Nat)
    (hs : List ObjHdr)
    (hcl : classify a.1 f ctrl func objects = .newRead hs ∨ ∃ x, classify a.1 f ctrl func objects = .repeatRead x hs)
    (hbuf : a.1.cfg.sol ≤ a.1.solBuf.length) (h4 : 4 ≤ a.1.cfg.sol) (hsorted : StaticSorted a.1.db)
    (a' : Dnp3.Acc) (series : Option Series)
    (hres : handleRequestFromIdle a f ctrl func objects raw = some (a', series)) :
    let db1 := (dbSelectAll a.1.db hs).1
    let cap := a.1.cfg.sol - 4
    ∃ hdr4 : List Nat, hdr4.length = 4 ∧
      a'.2 = a.2 ++ [.tx f.src (hdr4 ++ (encodeEvents none (db1.writeEvents cap).2.1 ++
        (writeStaticObjs db1 cap).flatMap (encodeStatic none)))] ∧
      a'.1.db = (db1.writeResponse cap).1 ∧
      (∃ n, (db1.writeEvents cap).2.1 = (db1.events.filter isSelected).take n) ∧
      (∀ r ∈ (db1.writeEvents cap).2.1, r ∈ db1.events ∧ ∃ r0 ∈ a.1.db.events, core r0 = core r) ∧
      (∀ o ∈ (writeStaticObjs db1 cap).flatten,
        (∃ t, o.g = staticGroup t ∧ ∃ p ∈ db1.map t, o.idx = p.1 ∧ o.m = p.2.selected) ∨
        (o.g = 34 ∧ ∃ p ∈ db1.ans, o.idx = p.1 ∧ o.m = { value := p.2.deadband, flags := 0 })) := by
  intro db1 cap
  obtain ⟨con, i1, i2, _, htx, hdb, _⟩ := read_from_idle a f ctrl func objects raw hs hcl hbuf h4 a' series hres
  have hs1 : StaticSorted db1 := dbSelectAll_sorted hs a.1.db hsorted
  have hoct := Dnp3.Props.Db.response_octets db1 hs1 cap
  obtain ⟨n, _, hn, _⟩ := writeEvents_spec db1 cap
  refine ⟨[(⟨true, (db1.writeResponse cap).2.2.2, con, false, ctrl.seq⟩ : AppCtrl).toNat, 0x81, i1,
      (dbSelectAll a.1.db hs).2 ||| i2], rfl, ?_, hdb, ⟨n, hn⟩, ?_, ?_⟩
  · rw [htx, ← hoct]
  · intro r hr
    rw [hn] at hr
    have hr1 : r ∈ db1.events := (List.mem_filter.mp (List.mem_of_mem_take hr)).1
    refine ⟨hr1, ?_⟩
    have : core r ∈ db1.events.map core := List.mem_map.mpr ⟨r, hr1, rfl⟩
    rw [dbSelectAll_core] at this
    obtain ⟨r0, h0, e0⟩ := List.mem_map.mp this
    exact ⟨r0, h0, e0⟩
  · intro o ho
    obtain ⟨it, _, hit⟩ := mem_writeStaticObjs db1 hs1 cap o ho
    exact mem_itemObjs_ty db1 it o hit

/-- `outstation_writes_only_database_values` (unsolicited): when `check_unsolicited` starts a
    non-null series it transmits to the configured master 4 header octets followed by EXACTLY the
    octets of `Db.writeUnsolicited` — by `unsol_marks_prefix` the encodings of a prefix (buffer
    order) of the records of the enabled classes, which it marks `Written` — and nothing else -/
theorem outstation_unsolicited_writes_only_buffer_events (a a' : Dnp3.Acc) (dl : Option Nat)
    (hu : a.1.unsol = .ready dl) (hbuf : a.1.cfg.unsol ≤ a.1.unsolBuf.length) (h4 : 4 ≤ a.1.cfg.unsol)
    (h : checkUnsolicited a = some (.inl a')) :
    ∃ (hdr4 : List Nat) (seq : Nat) (dbs : Db) (n : Nat), hdr4.length = 4 ∧ EbSel a.1.db.reset dbs ∧
      a'.2 = a.2 ++ [.tx a.1.cfg.master
        (hdr4 ++ encodeEvents none ((dbs.events.filter isSelected).take n)), .cb (.unsolWait seq)] ∧
      a'.1.db.events = markFirst n dbs.events := by
  obtain ⟨hdr4, hl, seq, htx, hdb⟩ := unsol_from_ready a a' dl hu hbuf h4 h
  obtain ⟨dbs, n, hsel, hev, hoct, _⟩ :=
    Dnp3.Props.Db.unsol_marks_prefix a.1.db a.1.en1 a.1.en2 a.1.en3 (a.1.cfg.unsol - 4)
  exact ⟨hdr4, seq, dbs, n, hl, hsel, by rw [htx, hoct], by rw [hdb, hev]⟩

/-! ## (iii) a cut loses only what is in flight -/

/-- the outcome of `cut` does not depend on what the two queues held: everything in flight
    (complete items and the partly forwarded head) is dropped before either endpoint runs; the
    endpoints then go through their session end / restart (`eof`, `cut`, `connect`, in this order),
    and only what the NEW sessions transmit enters the wire (what the master still transmits while
    handling `eof` is lost too) -/
theorem cut_loses_only_in_flight (s : PState) :
    let s0 : PState := { s with m2o := s.m2o.clear, o2m := s.o2m.clear }
    Pair.step s .cut = Pair.step s0 .cut ∧
    ∃ rest, (Pair.step s .cut).2 =
      [.m (mstep s0 .eof).2, .o (ostep (mstep s0 .eof).1 .cut).2,
       .m (mstep (enqO (ostep (mstep s0 .eof).1 .cut).1 (ostep (mstep s0 .eof).1 .cut).2) .connect).2] ++ rest := by
  refine ⟨rfl, ?_⟩
  have e : Pair.step s .cut = pump pumpFuel
      (enqM (mstep (enqO (ostep (mstep { s with m2o := s.m2o.clear, o2m := s.o2m.clear } .eof).1 .cut).1
          (ostep (mstep { s with m2o := s.m2o.clear, o2m := s.o2m.clear } .eof).1 .cut).2) .connect).1
        (mstep (enqO (ostep (mstep { s with m2o := s.m2o.clear, o2m := s.o2m.clear } .eof).1 .cut).1
          (ostep (mstep { s with m2o := s.m2o.clear, o2m := s.o2m.clear } .eof).1 .cut).2) .connect).2)
      [.m (mstep { s with m2o := s.m2o.clear, o2m := s.o2m.clear } .eof).2,
       .o (ostep (mstep { s with m2o := s.m2o.clear, o2m := s.o2m.clear } .eof).1 .cut).2,
       .m (mstep (enqO (ostep (mstep { s with m2o := s.m2o.clear, o2m := s.o2m.clear } .eof).1 .cut).1
          (ostep (mstep { s with m2o := s.m2o.clear, o2m := s.o2m.clear } .eof).1 .cut).2) .connect).2] := rfl
  rw [e, pump_acc]
  exact ⟨_, rfl⟩

/-! ## concrete instances of the hypotheses of the session-level theorems -/

/-- `exDb` (binaries 0, 1, 5 and analog 2 with two updates); 300-octet buffers; unsolicited enabled -/
def exO : OState := { OState.init { sol := 300, unsol := 300, unsolicited := true } (legacyEv 10) with db := exDb }
/-- READ g60v1 with sequence number 3 from master address 1 -/
def exFrag : Frag := ⟨0, 1, none, [0xC3, 1, 60, 1, 6]⟩

/-- every hypothesis of `quiescent_class0_poll_converges_partial` and of
    `outstation_writes_only_database_values` (with `hs = [class0Hdr]`) holds for this pair of states -/
example :
    let ao : Dnp3.Acc := (exO, [])
    let ctrl := AppCtrl.ofNat 0xC3
    let objects := parseObjects true 3 [60, 1, 6]
    classify ao.1 exFrag ctrl 1 objects = .newRead [class0Hdr] ∧ ctrl.seq < 16 ∧
    ao.1.cfg.sol ≤ ao.1.solBuf.length ∧ 4 ≤ ao.1.cfg.sol ∧ ao.1.lastBroadcast = none ∧
    StaticSorted ao.1.db ∧ ao.1.db.queue = [] ∧ 2 ≤ ao.1.db.selCap ∧ (∀ r ∈ ao.1.db.events, r.st ≠ .selected) ∧
    (∀ p ∈ ao.1.db.bins, p.1 < 65536) ∧ (∀ p ∈ ao.1.db.ans, p.1 < 65536) ∧
    (∀ p ∈ ao.1.db.bins, p.2.svar = 2) ∧ (∀ p ∈ ao.1.db.ans, p.2.svar = 1) ∧
    (∀ t, t ≠ .binary → t ≠ .analog → ao.1.db.map t = []) ∧
    ao.1.db.czero.binary = true ∧ ao.1.db.czero.analog = true ∧
    (ao.1.db.selectClass0.1.writeResponse (ao.1.cfg.sol - 4)).2.2.2 = true ∧
    (handleRequestFromIdle ao exFrag ctrl 1 objects [60, 1, 6]).isSome = true ∧
    (let am : Master.Acc := ({ assocs := [{ addr := 1024, cfg := {}, seq := 4 }], ring := [1024],
                               mode := .waitRead 1024 (.integrity 15) 3 true 5000 }, [])
     am.1.mode = .waitRead 1024 (.integrity 15) (AppCtrl.ofNat 0xC3).seq true 5000 ∧
     (am.1.getAssoc 1024).isSome = true) := by
  refine ⟨rfl, by decide +kernel, by decide +kernel, by decide +kernel, rfl, by decide +kernel, rfl,
    by decide +kernel, by decide +kernel, by decide +kernel, by decide +kernel,
    by decide +kernel, by decide +kernel,
    fun t h1 h2 => by cases t <;> first | exact absurd rfl h1 | exact absurd rfl h2 | rfl,
    rfl, rfl, by decide +kernel,
    by decide +kernel, rfl, rfl⟩

/-- … and of `outstation_unsolicited_writes_only_buffer_events`: class 1 enabled, the null response
    confirmed, two class-1 / class-2 events buffered -/
example :
    let a : Dnp3.Acc := ({ exO with unsol := .ready none, en1 := true }, [])
    a.1.unsol = .ready none ∧ a.1.cfg.unsol ≤ a.1.unsolBuf.length ∧ 4 ≤ a.1.cfg.unsol ∧
    ∃ a', checkUnsolicited a = some (.inl a') := by
  refine ⟨rfl, by decide +kernel, by decide +kernel, ?_⟩
  have : (match checkUnsolicited ({ exO with unsol := .ready none, en1 := true }, []) with
    | some (.inl _) => true | _ => false) = true := by decide +kernel
  revert this
  cases checkUnsolicited ({ exO with unsol := .ready none, en1 := true }, []) with
  | none => intro h; cases h
  | some x =>
    cases x with
    | inl a' => intro _; exact ⟨a', rfl⟩
    | inr _ => intro h; cases h

/-! ## (iv) an overflow indication in ANY accepted fragment demands the integrity poll -/

/-- `Association::process_iin` with IIN2.3 set and `auto_integrity_scan_on_buffer_overflow`: whatever the
    other IIN bits and the state of the automatic tasks, the integrity task is not idle afterwards -/
theorem process_iin_overflow (x : Assoc) (i1 i2 : Nat) (hovf : x.cfg.ovf = true) (hb : i2 &&& 0x08 ≠ 0) :
    (x.processIin i1 i2).auto.integrity.isIdle = false :=
  Dnp3.Proofs.C02Overflow.processIin_overflow_integrity x i1 i2 hovf hb

/-- … and without IIN2.3 and IIN1.7 it leaves the integrity task as it was (the demand comes from
    these two bits only) -/
theorem process_iin_no_trigger (x : Assoc) (i1 i2 : Nat) (h7 : i1 &&& 0x80 = 0) (hb : i2 &&& 0x08 = 0) :
    (x.processIin i1 i2).auto.integrity = x.auto.integrity :=
  Dnp3.Proofs.C02Overflow.processIin_no_trigger x i1 i2 h7 hb

/-- **an accepted response fragment with IIN2.3 set, final or not, demands the integrity task.**
    The master waits for (a fragment of) the response to a READ `t` polled from `dest` (any READ:
    periodic poll, automatic event scan, user read, integrity poll); the association has
    `auto_integrity_scan_on_buffer_overflow`; the fragment is accepted by `process_read_response`
    (with or without CON, FIN or not) and carries IIN2.3.  When the fragment has been handled (IIN
    processed, measurements delivered, confirm sent and, for a final fragment, the READ task completed)
    the association's integrity task is not idle.  The one exception is in the statement: the FINAL
    fragment of the integrity poll itself completes that very task. -/
theorem overflow_iin_demands_integrity (s : MState) (dest seq dl : Nat) (t : ReadTask) (isFirst : Bool)
    (src : Nat) (frag : List Nat) (r : Master.Resp) (x : Assoc) (confirm final : Bool)
    (hm : s.mode = .waitRead dest t seq isFirst dl)
    (hp : parseResponse frag = some r)
    (hx : s.getAssoc dest = some x) (hovf : x.cfg.ovf = true)
    (hv : processReadResponse dest seq isFirst true src r = .accept confirm final)
    (hiin : r.iin2 &&& 0x08 ≠ 0)
    (hni : final = true → ∀ c, t ≠ .integrity c) :
    ∃ y, (onFragment (s, []) src frag).acc.1.getAssoc dest = some y ∧ y.auto.integrity.isIdle = false :=
  Dnp3.Proofs.C02Overflow.overflow_iin_demands_integrity s dest seq dl t isFirst src frag r x confirm final
    hm hp hx hovf hv hiin hni

/-- the same through the whole `Master.step` for a NON-FINAL fragment (the shape in which the outstation
    reports an overflow that the confirm of this very fragment clears): afterwards the master still
    waits for the next fragment of the READ and the integrity task of the polled association is not
    idle.  `hlive`: the channel has not been dropped by all its handles. -/
theorem nonfinal_overflow_fragment_step (s : MState) (dest seq dl : Nat) (t : ReadTask) (isFirst : Bool)
    (src dst : Nat) (frag : List Nat) (r : Master.Resp) (x : Assoc) (confirm : Bool)
    (hdst : dst = Master.masterAddr) (hsrc : src < 0xFFF0) (hne : frag.isEmpty = false) (hlen : frag.length ≤ 2048)
    (hlive : ¬ (s.shutdownReq = true ∧ s.live = 0))
    (hm : s.mode = .waitRead dest t seq isFirst dl)
    (hp : parseResponse frag = some r)
    (hx : s.getAssoc dest = some x) (hovf : x.cfg.ovf = true)
    (hv : processReadResponse dest seq isFirst true src r = .accept confirm false)
    (hiin : r.iin2 &&& 0x08 ≠ 0) :
    ∃ y seq' dl', (Master.step s (.rx src dst frag)).1.getAssoc dest = some y ∧ y.auto.integrity.isIdle = false ∧
      (Master.step s (.rx src dst frag)).1.mode = .waitRead dest t seq' false dl' :=
  Dnp3.Proofs.C02Overflow.nonfinal_overflow_fragment_step s dest seq dl t isFirst src dst frag r x confirm
    hdst hsrc hne hlen hlive hm hp hx hovf hv hiin

/-- a master whose start-up sequence is complete (integrity task idle) runs periodic event poll 0
    (classes 1-3) and waits for the first fragment of its response with sequence number 0 -/
def ovfDemo : MState :=
  { assocs := [{ addr := 1024, cfg := {}, seq := 1, integrityDone := true,
                 auto := { disable := .idle, integrity := .idle, enable := .idle } }],
    ring := [1024], mode := .waitRead 1024 (.poll 0 7) 0 true 5000, live := 1 }

/-- FIR, not FIN, CON, sequence 0, RESPONSE, IIN2.3, one g32v1 event (index 0, ONLINE, value 1) -/
def ovfFrag : List Nat := [0xA0, 0x81, 0x00, 0x08, 32, 1, 0x28, 1, 0, 0, 0, 1, 1, 0, 0, 0]

/-- every hypothesis of `overflow_iin_demands_integrity` / `nonfinal_overflow_fragment_step` holds for
    this non-final fragment, the integrity task was idle before, and it is pending after the step;
    the fragment was delivered to the handler and confirmed -/
example :
    ∃ r x, parseResponse ovfFrag = some r ∧ ovfDemo.getAssoc 1024 = some x ∧ x.cfg.ovf = true ∧
      x.auto.integrity = .idle ∧
      processReadResponse 1024 0 true true 1024 r = .accept true false ∧ r.iin2 &&& 0x08 ≠ 0 ∧
      ((Master.step ovfDemo (.rx 1024 1 ovfFrag)).1.getAssoc 1024).map (·.auto.integrity) = some .pending ∧
      MOut.tx 1024 [0xC0, 0] ∈ (Master.step ovfDemo (.rx 1024 1 ovfFrag)).2 ∧
      MOut.deliverHdr (.assoc 1024) 32 1 0x28 [(0, [1, 1, 0, 0, 0])] ∈ (Master.step ovfDemo (.rx 1024 1 ovfFrag)).2 := by
  refine ⟨_, _, rfl, rfl, rfl, rfl, ?_, ?_, ?_, ?_, ?_⟩ <;> decide +kernel

/-- the same indication in the FINAL fragment of that poll: the poll completes and the integrity poll
    is started at once (the next request on the wire is READ class 1, 2, 3, 0) -/
example :
    MOut.tx 1024 [0xC1, 1, 0x3c, 0x02, 0x06, 0x3c, 0x03, 0x06, 0x3c, 0x04, 0x06, 0x3c, 0x01, 0x06] ∈
      (Master.step ovfDemo (.rx 1024 1 ([0xC0] ++ ovfFrag.drop 1))).2 := by
  decide +kernel

end Dnp3.Props.C02

/-! # reachable pair states, the multi-fragment series, events -/
namespace Dnp3.Props.C02
section Reach
open Dnp3 Dnp3.DbM Dnp3.DbProofs Dnp3.Pair Dnp3.Proofs.C02Static Dnp3.Proofs.C02Reach Dnp3.Proofs.C02Series
open Dnp3.Proofs.C02SeriesMaster Dnp3.Proofs.C02Session Dnp3.Proofs.Skel Dnp3.Proofs.C03 Dnp3.Proofs.C02Events

/-! ## § reachable pair states: the class-0 database hypotheses are derived

`Pair.ReachableVia ok cfg… s`: `s` is reached from `(Pair.start cfg…).1` by `Pair.step` over inputs satisfying `ok`;
`Pair.Reachable` = `ReachableVia (fun _ => True)`; `AddsBinAn`: `add` / `addMany` ops add binary / analog inputs
only, every other op is unrestricted (`inject`, `cut`, `txn`, … included). -/

/-- the outstation component of a reachable pair state (ANY inputs) is a state of an outstation trace from
    construction, under the environment the pair was started with -/
theorem reachable_pair_outstation {ocfg : OCfg} {evMax : Nat} {env : OEnv} {txSize : Nat} {acfg : Master.ACfg}
    {base : Option Nat} {dm2o do2m : Nat} {s : PState}
    (hr : Pair.Reachable ocfg evMax env txSize acfg base dm2o do2m s) :
    s.env = env ∧ Outstation.Reachable ocfg evMax env s.o :=
  reachable_outstation hr

/-- five points added as binary / analog inputs, two of them updated, 100 ms of time -/
def exPairOps : List PInput := [.add .binary 0 1, .add .binary 1 1, .add .binary 5 0, .add .analog 2 2,
  .txn [.bin 1 true 1 7, .an 2 (-5) 1 8], .tick 100]
/-- 20-octet solicited buffer, ten events per type, the master's automatic tasks switched off -/
def exPairStart : PState := (Pair.start { sol := 20 } (legacyEv 10) {} 2048 { dis := 0, int := 0, en := 0 } none 0 0).1
def exPair : PState := (Pair.run exPairStart exPairOps).1

/-- `exPairOps` satisfy `AddsBinAn`, so the state they lead to is reachable in that sense -/
theorem exPair_reachable :
    ReachableVia AddsBinAn { sol := 20 } (legacyEv 10) {} 2048 { dis := 0, int := 0, en := 0 } none 0 0 exPair := by
  refine ReachableVia.run exPairOps .start ?_
  intro op h
  simp only [exPairOps, List.mem_cons, List.not_mem_nil, or_false] at h
  rcases h with rfl | rfl | rfl | rfl | rfl | rfl <;> first | exact .inl rfl | exact .inr rfl | trivial

example : Pair.Reachable { sol := 20 } (legacyEv 10) {} 2048 { dis := 0, int := 0, en := 0 } none 0 0 exPair :=
  exPair_reachable.mono (fun _ _ => trivial)

/-- **the database hypotheses of the class-0 theorems hold of the outstation database of every pair state reachable
    by ops that add binary / analog inputs only**: sorted maps, binary inputs with static variation g1v2, analog
    inputs with g30v1, no point of the other six types, both enabled in `ClassZeroConfig`, room for the two class-0
    selections, every index a u16 — whatever updates, requests, responses, confirms, cuts, injected fragments and
    time steps the run contained -/
theorem class0_database_hypotheses_reachable_pair {ocfg : OCfg} {n : Nat} {env : OEnv} {txSize : Nat} {acfg : Master.ACfg}
    {base : Option Nat} {dm2o do2m : Nat} {s : PState}
    (hr : ReachableVia AddsBinAn ocfg (legacyEv n) env txSize acfg base dm2o do2m s) :
    let db := s.o.db
    StaticSorted db ∧ (∀ p ∈ db.bins, p.2.svar = 2) ∧ (∀ p ∈ db.ans, p.2.svar = 1) ∧
    (∀ t, t ≠ .binary → t ≠ .analog → db.map t = []) ∧ db.czero.binary = true ∧ db.czero.analog = true ∧
    2 ≤ db.selCap ∧ (∀ p ∈ db.bins, p.1 < 65536) ∧ (∀ p ∈ db.ans, p.1 < 65536) := by
  obtain ⟨h1, h2, h3, h4⟩ := reachable_class0Db hr
  exact ⟨h1, h2.sv, h2.sa, h2.empty, h2.czb, h2.cza, h3, h4 .binary, h4 .analog⟩

/-- the exact condition on the inputs: `add` / `addMany` of binary / analog inputs; anything else is allowed -/
example : AddsBinAn (.add .analog 7 2) ∧ AddsBinAn (.inject true 1 1024 [0xC0, 0]) ∧ AddsBinAn .cut ∧
    ¬ AddsBinAn (.add .counter 0 1) := ⟨.inr rfl, trivial, trivial, by intro h; rcases h with h | h <;> cases h⟩

/-- the outstation component is a state of an outstation trace from construction, under the environment the
    pair was started with -/
theorem reachable_outstation_restated {ocfg : OCfg} {evMax : Nat} {env : OEnv} {txSize : Nat} {acfg : Master.ACfg}
    {base : Option Nat} {dm2o do2m : Nat} {s : PState}
    (hr : Pair.Reachable ocfg evMax env txSize acfg base dm2o do2m s) :
    s.env = env ∧ Outstation.Reachable ocfg evMax env s.o :=
  @Dnp3.Proofs.C02Reach.reachable_outstation ocfg evMax env txSize acfg base dm2o do2m s hr

/-- **one step of the outstation session model keeps a database invariant**: any input; for an `add` input
    the invariant has to be kept by that `Db.add` -/
theorem step_dbInv {I : Db → Prop} (K : DbInv I) (env : OEnv) (s : OState) (inp : OInput)
    (hadd : ∀ t idx cls, inp = .add t idx cls → I s.db → I (s.db.add t idx cls).1)
    (h : I s.db) : I (Outstation.step env s inp).1.db :=
  @Dnp3.Proofs.C02Reach.step_dbInv I K env s inp hadd h

/-- **one step of the outstation session model keeps the class-0 hypotheses**, whatever the input, as long
    as it does not add a point of another type than binary / analog input -/
theorem step_class0Db (env : OEnv) (s : OState) (inp : OInput) (hinp : OAddsBinAn inp) (h : Class0Db s.db) :
    Class0Db (Outstation.step env s inp).1.db :=
  @Dnp3.Proofs.C02Reach.step_class0Db env s inp hinp h


/-- the predicate `Class0Db` (sorted, `PairDb`, `2 ≤ selCap`, u16 indices) is such an invariant -/
example : DbInv Class0Db := class0Db_inv

/-- `class0_response_delivers_database`: `class0_response_delivers_database_partial` for the outstation database of
    a REACHABLE pair state — the five database hypotheses, `StaticSorted`, `2 ≤ selCap` and the index bounds are
    derived (`class0_database_hypotheses_reachable_pair`).  What remains is the situation the statement is about:
    the database is idle (`hq`: no READ in progress; `hev`: no record `Selected`) and the response is complete
    (`hc`). -/
theorem class0_response_delivers_database {ocfg : OCfg} {n : Nat} {env : OEnv} {txSize : Nat} {acfg : Master.ACfg}
    {base : Option Nat} {dm2o do2m : Nat} {s : PState}
    (hr : ReachableVia AddsBinAn ocfg (legacyEv n) env txSize acfg base dm2o do2m s)
    (cap : Nat) (who : Master.Who) (a : Master.Acc)
    (hq : s.o.db.queue = []) (hev : ∀ r ∈ s.o.db.events, r.st ≠ .selected)
    (hc : (s.o.db.selectClass0.1.writeResponse cap).2.2.2 = true) :
    let db := s.o.db
    let objs := (db.selectClass0.1.writeResponse cap).2.1
    let B := objsOf .binary db.bins
    let A := objsOf .analog db.ans
    let calls := (runs B).map (runCall who) ++ (runs A).map (runCall who)
    ∃ hdrs, Master.parseRespObjects objs.length objs = some hdrs ∧
      hdrs.foldl (fun a h => Master.deliverHeader a who h) a = (a.1, a.2 ++ calls) ∧
      calls.flatMap Dnp3.Props.C02.callItems =
        db.bins.map (fun p => (p.1, [p.2.current.wire .binary])) ++
        db.ans.map (fun p => (p.1, stObjBytes { idx := p.1, g := 30, v := 1, m := p.2.current })) ∧
      (∀ r ∈ runs B ++ runs A, RunOK r) := by
  obtain ⟨h1, h2, h3, h4, h5, h6, h7, h8, h9⟩ := class0_database_hypotheses_reachable_pair hr
  exact class0_response_delivers_database_partial s.o.db cap who a h1 hq h7 hev h8 h9 h2 h3 h4 h5 h6 hc

/-- the remaining hypotheses hold of `exPair` (five points, two events buffered `Unselected`, 100 octets of room) -/
example : exPair.o.db.queue = [] ∧ (∀ r ∈ exPair.o.db.events, r.st ≠ .selected) ∧
    (exPair.o.db.selectClass0.1.writeResponse 100).2.2.2 = true ∧ exPair.o.db.events.length = 2 := by
  refine ⟨by decide +kernel, by decide +kernel, by decide +kernel, by decide +kernel⟩

/-! ## § series: a READ answered in any number of fragments -/

/-- **the static objects of all fragments of a series that ends with fragment `n - 1`, concatenated, are exactly
    the objects the request selected** -/
theorem series_objects (cap : Nat) (db1 : Db) (hs : StaticSorted db1) (hu : AllUnsel db1) (n : Nat)
    (hend : (fragW cap db1 n).2.2.2 = true) :
    (List.range (n + 1)).flatMap (fun j => (fragObjs cap db1 j).flatten) = pending db1 db1.queue :=
  @Dnp3.Proofs.C02Series.series_objects cap db1 hs hu n hend

/-- the selection of a class-0 READ on an idle `pair` database -/
theorem class0_pending (db : Db) (hc : Class0Db db) (hq : db.queue = []) (hu : AllUnsel db) :
    pending db.selectClass0.1 db.selectClass0.1.queue = objsOf .binary db.bins ++ objsOf .analog db.ans ∧
    StaticSorted db.selectClass0.1 ∧ AllUnsel db.selectClass0.1 ∧ Class0Db db.selectClass0.1 :=
  @Dnp3.Proofs.C02Series.class0_pending db hc hq hu

/-- **one step of the outstation session model on a READ request received while idle**: the selections are
    made, the first fragment is formatted from the database and transmitted -/
theorem step_read_first (env : OEnv) (cfg : OCfg) (s : OState) (next : NextIdle) (src dst : Nat) (req : List Nat)
    (ctrl : AppCtrl) (hs : List ObjHdr) (raw : List Nat)
    (hmode : s.mode = .idle next) (hcfg : s.cfg = cfg)
    (hbuf : cfg.sol ≤ s.solBuf.length) (h4 : 4 ≤ cfg.sol) (hnb : s.lastBroadcast = none)
    (hcnt : CountersExact s.db)
    (hdst : dst = env.outstation) (hsrc : src < 0xFFF0) (hne : req.isEmpty = false) (hrx : req.length ≤ env.rx)
    (hmaster : cfg.anymaster = true ∨ src = cfg.master)
    (hreq : parseRequest req = .request ctrl 1 (.ok hs) raw) :
    ∃ (i1 i2 : Nat) (s' : OState) (rest : List OOut), i2 &&& 7 = 0 ∧
      Outstation.step env s (.rx src dst req) =
        (s', [.tx src ([(⟨true, ((dbSelectAll s.db hs).1.writeResponse (cfg.sol - 4)).2.2.2,
             ((dbSelectAll s.db hs).1.writeResponse (cfg.sol - 4)).2.2.1 || !((dbSelectAll s.db hs).1.writeResponse (cfg.sol - 4)).2.2.2,
             false, ctrl.seq⟩ : AppCtrl).toNat, 0x81, i1, (dbSelectAll s.db hs).2 ||| i2] ++
             ((dbSelectAll s.db hs).1.writeResponse (cfg.sol - 4)).2.1)] ++ rest) ∧
      (((dbSelectAll s.db hs).1.writeResponse (cfg.sol - 4)).2.2.2 = false →
        rest = [.cb (.solWait ctrl.seq)] ∧ OWait cfg s' ctrl.seq ((dbSelectAll s.db hs).1.writeResponse (cfg.sol - 4)).1) :=
  @Dnp3.Proofs.C02Series.step_read_first env cfg s next src dst req ctrl hs raw hmode hcfg hbuf h4 hnb hcnt hdst hsrc hne hrx hmaster hreq

/-- **one step of the outstation session model on the CONFIRM it awaits**: the events written are released,
    the next fragment is formatted from the database and transmitted -/
theorem step_confirm (env : OEnv) (cfg : OCfg) (s : OState) (e : Nat) (db : Db) (src dst : Nat)
    (hw : OWait cfg s e db) (he : e < 16)
    (hdst : dst = env.outstation) (hsrc : src < 0xFFF0) (hrx : 2 ≤ env.rx)
    (hmaster : cfg.anymaster = true ∨ src = cfg.master) (h4 : 4 ≤ cfg.sol)
    (c1 c2 c3 : Bool) (hu : (db.clearWritten.1.writeResponse (cfg.sol - 4)).1.unwrittenClasses = some (c1, c2, c3)) :
    ∃ (i1 i2 : Nat) (s' : OState) (rest : List OOut), i2 &&& 7 = 0 ∧
      Outstation.step env s (.rx src dst [0xC0 + e, 0]) =
        (s', [.cb (.solConfirmed e), .cb .beginConfirm] ++ db.clearWritten.2.1.map (fun id => OOut.cb (.eventCleared id)) ++
          [.cb (.endConfirm db.clearWritten.2.2.1 db.clearWritten.2.2.2.1 db.clearWritten.2.2.2.2),
           .tx src ([(⟨false, (db.clearWritten.1.writeResponse (cfg.sol - 4)).2.2.2,
               (db.clearWritten.1.writeResponse (cfg.sol - 4)).2.2.1 || !(db.clearWritten.1.writeResponse (cfg.sol - 4)).2.2.2,
               false, seq4Next e⟩ : AppCtrl).toNat, 0x81, i1, i2] ++ (db.clearWritten.1.writeResponse (cfg.sol - 4)).2.1)] ++ rest) ∧
      ((db.clearWritten.1.writeResponse (cfg.sol - 4)).2.2.2 = false →
        rest = [] ∧ OWait cfg s' (seq4Next e) (db.clearWritten.1.writeResponse (cfg.sol - 4)).1) :=
  @Dnp3.Proofs.C02Series.step_confirm env cfg s e db src dst hw he hdst hsrc hrx hmaster h4 c1 c2 c3 hu

/-- **a class-0 READ answered in ANY number of fragments converges** — the two session models composed over an
    ideal wire (every transmission reaches the peer, in order, before anything else happens: the glue (c) that
    `wire_is_fifo` / `wire_invariant` provide in the pair model, plus "no timer fires, no update, no other
    input", is what this statement assumes instead of deriving it from `Pair.step`).

    Outstation session state `so`: idle, no broadcast to report, buffers as configured, a `pair`
    database (`Class0Db`) with exact counters, no READ in progress (`queue = []`), every event record
    `Unselected`.  The request `req` is a READ whose headers select what `select_class_zero` selects
    (`hsel`; e.g. `[60, 1, 6]`, or the integrity poll `60,2 60,3 60,4 60,1` on an empty event buffer).
    Master session state `sm`: waiting for the first fragment of the answer to that request (`MWait … true`).
    The answer takes `n + 1` fragments (`hnf`, `hfin`: the database's `write_response_headers` is complete
    for the first time at fragment `n`; capacity `cfg.sol - 4`).  Then there are states and IIN octets with:
    1. `Outstation.step` on the request transmits fragment 0 first (FIR, FIN iff `n = 0`, CON iff not FIN);
    2. `n` rounds of `Exchange`: `Master.step` on fragment `k` emits EXACTLY `deliverBegin`, the calls
       `fragCalls (fragObjs k)`, `deliverEnd`, CONFIRM; `Outstation.step` on that CONFIRM transmits fragment `k + 1`
       first;
    3. `Master.step` on fragment `n` emits `deliverBegin`, `fragCalls (fragObjs n)`, `deliverEnd` and then only
       outputs that are neither deliveries nor CONFIRMs (`QuietOut`; the READ task has ended);
    4. the items of all handler calls of all fragments, concatenated, are `(index, wire octets of the CURRENT
       value)` of every binary input, then every analog input — each point exactly once, ascending. -/
theorem class0_series_converges (env : OEnv) (cfg : OCfg) (so : OState) (next : NextIdle) (sm : Master.MState)
    (t : Master.ReadTask) (req : List Nat) (ctrl : AppCtrl) (hs : List ObjHdr) (raw : List Nat) (n : Nat)
    (hmode : so.mode = .idle next) (hcfg : so.cfg = cfg)
    (hbuf : cfg.sol ≤ so.solBuf.length) (h4 : 4 ≤ cfg.sol) (hmax : cfg.sol ≤ 2048) (hnb : so.lastBroadcast = none)
    (hcnt : CountersExact so.db) (hc0 : Class0Db so.db) (hq : so.db.queue = []) (hu : AllUnsel so.db)
    (haddr : env.outstation = outstationAddr) (hrx : 2 ≤ env.rx) (hlen : req.length ≤ env.rx)
    (hmaster : cfg.anymaster = true ∨ masterAddr = cfg.master)
    (hreq : parseRequest req = .request ctrl 1 (.ok hs) raw) (hseq : ctrl.seq < 16)
    (hsel : dbSelectAll so.db hs = (so.db.selectClass0.1, 0))
    (hm : MWait sm outstationAddr t ctrl.seq true)
    (hnf : ∀ k, k < n → (fragW (cfg.sol - 4) so.db.selectClass0.1 k).2.2.2 = false)
    (hfin : (fragW (cfg.sol - 4) so.db.selectClass0.1 n).2.2.2 = true) :
    let db1 := so.db.selectClass0.1
    let who := Master.whoOf outstationAddr t
    let rt := Master.rtOf t
    let calls := fun k => fragCalls who (fragObjs (cfg.sol - 4) db1 k)
    ∃ (o0 oE : OState) (mE mF : Master.MState) (rest0 : List OOut) (i1 i2 j1 j2 c : Nat) (l : List Master.MOut),
      Outstation.step env so (.rx masterAddr outstationAddr req) =
        (o0, [.tx masterAddr (fragOct true (decide (n = 0)) ctrl.seq i1 i2 (fragW (cfg.sol - 4) db1 0).2.1)] ++ rest0) ∧
      Exchange env who rt o0 sm (fragOct true (decide (n = 0)) ctrl.seq i1 i2 (fragW (cfg.sol - 4) db1 0).2.1) ctrl.seq
        ((List.range n).map calls) oE mE
        (fragOct (decide (n = 0)) true (seqAt ctrl.seq n) j1 j2 (fragW (cfg.sol - 4) db1 n).2.1) (seqAt ctrl.seq n) ∧
      Master.step mE (.rx outstationAddr masterAddr
          (fragOct (decide (n = 0)) true (seqAt ctrl.seq n) j1 j2 (fragW (cfg.sol - 4) db1 n).2.1)) =
        (mF, [.deliverBegin who rt c j1 j2] ++ calls n ++ [.deliverEnd who rt] ++ l) ∧
      (∀ o ∈ l, Dnp3.Proofs.C02MasterQuiet.QuietOut o) ∧
      (List.range (n + 1)).flatMap (fun k => (calls k).flatMap callItems) =
        so.db.bins.map (fun p => (p.1, [p.2.current.wire .binary])) ++
        so.db.ans.map (fun p => (p.1, stObjBytes { idx := p.1, g := 30, v := 1, m := p.2.current })) :=
  @Dnp3.Proofs.C02Series.class0_series_converges env cfg so next sm t req ctrl hs raw n hmode hcfg hbuf h4 hmax hnb hcnt hc0 hq hu haddr hrx hlen hmaster hreq hseq hsel hm hnf hfin


/-- the hypotheses of `step_read_first` hold for `exSo` and READ g60v1 with sequence number 3; its conclusion
    (the answer is incomplete after 16 octets) yields a state satisfying the hypothesis `OWait` of `step_confirm` -/
example : ∃ s', OWait exCfg s' 3 ((dbSelectAll exSo.db [class0Hdr]).1.writeResponse (exCfg.sol - 4)).1 := by
  obtain ⟨i1, i2, s', rest, _, _, h⟩ := step_read_first {} exCfg exSo .untilEvent masterAddr outstationAddr
    [0xC0 + 3, 1, 60, 1, 6] ⟨true, true, false, false, 3⟩ [class0Hdr] [60, 1, 6]
    rfl rfl (by decide) (by decide) rfl (counters_run _ _ (new_counters _ _)) rfl (by decide) rfl (by decide) (.inr rfl)
    (parseRequest_class0 3 (by decide))
  exact ⟨s', (h (by decide +kernel)).2⟩

/-- `exSo`, `exSm`, READ g60v1 with sequence number 3 and `n = 2` satisfy every hypothesis of `class0_series_converges`
    (the `example` below `Dnp3.Proofs.C02Series.exOps_ok`); the answer takes three fragments:
    binaries 0-1 / binary 5 / analog 2 -/
example : (List.range 3).map (fun k => (fragObjs (exCfg.sol - 4) exSo.db.selectClass0.1 k).flatten.map (fun o => (o.g, o.idx))) =
    [[(1, 0), (1, 1)], [(1, 5)], [(30, 2)]] := by decide +kernel

/-- the two requests covered: READ g60v1, and the master's integrity poll on an empty event buffer -/
example (db : Db) (hc0 : Class0Db db) (hq : db.queue = []) :
    dbSelectAll db [class0Hdr] = (db.selectClass0.1, 0) ∧
    (db.events = [] → dbSelectAll db integrityHdrs = (db.selectClass0.1, 0)) ∧
    (∀ e, e < 16 → parseRequest [0xC0 + e, 1, 60, 1, 6] = .request ⟨true, true, false, false, e⟩ 1 (.ok [class0Hdr]) [60, 1, 6]) ∧
    (∀ e, e < 16 → parseRequest ([0xC0 + e, 1] ++ Master.classHeaders 15) =
      .request ⟨true, true, false, false, e⟩ 1 (.ok integrityHdrs) (Master.classHeaders 15)) :=
  ⟨sel_class0 db hc0 hq, sel_integrity db hc0 hq, parseRequest_class0, parseRequest_integrity⟩

/-- what reachability gives about the outstation component -/
theorem reachable_outstation_facts {ocfg : OCfg} {n : Nat} {env : OEnv} {txSize : Nat} {acfg : Master.ACfg}
    {base : Option Nat} {dm2o do2m : Nat} {s : PState}
    (hr : ReachableVia AddsBinAn ocfg (legacyEv n) env txSize acfg base dm2o do2m s)
    (hsol : 10 ≤ ocfg.sol) (hunsol : 4 ≤ ocfg.unsol) :
    s.env = env ∧ s.o.cfg = ocfg ∧ s.o.solBuf.length = ocfg.sol ∧ s.o.mode ≠ .dead ∧ CountersExact s.o.db ∧
    Class0Db s.o.db :=
  @Dnp3.Proofs.C02Pair.reachable_outstation_facts ocfg n env txSize acfg base dm2o do2m s hr hsol hunsol

/-- **the multi-fragment class-0 / integrity poll from a reachable pair state** (ideal wire): see
    `class0_series_converges`; `s` is any pair state reachable from `Pair.start …` by ops that add binary / analog
    inputs only, whose outstation is idle with a quiescent database, and whose master (`sm`: `s.m` with the clock
    the relay sets) waits for the first fragment of the answer to the request `req` -/
theorem reachable_series_converges_partial {ocfg : OCfg} {nEv : Nat} {env : OEnv} {txSize : Nat} {acfg : Master.ACfg}
    {base : Option Nat} {dm2o do2m : Nat} {s : PState}
    (hr : ReachableVia AddsBinAn ocfg (legacyEv nEv) env txSize acfg base dm2o do2m s)
    (hsol : 10 ≤ ocfg.sol) (hmax : ocfg.sol ≤ 2048) (hunsol : 4 ≤ ocfg.unsol)
    (haddr : env.outstation = outstationAddr) (hrx : 2 ≤ env.rx)
    (hmaster : ocfg.anymaster = true ∨ masterAddr = ocfg.master)
    (next : NextIdle) (hmode : s.o.mode = .idle next) (hnb : s.o.lastBroadcast = none)
    (hq : s.o.db.queue = []) (hu : AllUnsel s.o.db)
    (sm : Master.MState) (t : Master.ReadTask) (req : List Nat) (ctrl : AppCtrl) (hs : List ObjHdr) (raw : List Nat) (n : Nat)
    (hlen : req.length ≤ env.rx)
    (hreq : parseRequest req = .request ctrl 1 (.ok hs) raw) (hseq : ctrl.seq < 16)
    (hsel : dbSelectAll s.o.db hs = (s.o.db.selectClass0.1, 0))
    (hm : MWait sm outstationAddr t ctrl.seq true)
    (hnf : ∀ k, k < n → (fragW (ocfg.sol - 4) s.o.db.selectClass0.1 k).2.2.2 = false)
    (hfin : (fragW (ocfg.sol - 4) s.o.db.selectClass0.1 n).2.2.2 = true) :
    let db1 := s.o.db.selectClass0.1
    let who := Master.whoOf outstationAddr t
    let rt := Master.rtOf t
    let calls := fun k => fragCalls who (fragObjs (ocfg.sol - 4) db1 k)
    ∃ (o0 oE : OState) (mE mF : Master.MState) (rest0 : List OOut) (i1 i2 j1 j2 c : Nat) (l : List Master.MOut),
      Outstation.step s.env s.o (.rx masterAddr outstationAddr req) =
        (o0, [.tx masterAddr (fragOct true (decide (n = 0)) ctrl.seq i1 i2 (fragW (ocfg.sol - 4) db1 0).2.1)] ++ rest0) ∧
      Exchange s.env who rt o0 sm (fragOct true (decide (n = 0)) ctrl.seq i1 i2 (fragW (ocfg.sol - 4) db1 0).2.1) ctrl.seq
        ((List.range n).map calls) oE mE
        (fragOct (decide (n = 0)) true (seqAt ctrl.seq n) j1 j2 (fragW (ocfg.sol - 4) db1 n).2.1) (seqAt ctrl.seq n) ∧
      Master.step mE (.rx outstationAddr masterAddr
          (fragOct (decide (n = 0)) true (seqAt ctrl.seq n) j1 j2 (fragW (ocfg.sol - 4) db1 n).2.1)) =
        (mF, [.deliverBegin who rt c j1 j2] ++ calls n ++ [.deliverEnd who rt] ++ l) ∧
      (∀ o ∈ l, Dnp3.Proofs.C02MasterQuiet.QuietOut o) ∧
      (List.range (n + 1)).flatMap (fun k => (calls k).flatMap callItems) =
        s.o.db.bins.map (fun p => (p.1, [p.2.current.wire .binary])) ++
        s.o.db.ans.map (fun p => (p.1, stObjBytes { idx := p.1, g := 30, v := 1, m := p.2.current })) :=
  @Dnp3.Proofs.C02Pair.reachable_series_converges ocfg nEv env txSize acfg base dm2o do2m s hr hsol hmax hunsol haddr hrx hmaster next hmode hnb hq hu sm t req ctrl hs raw n hlen hreq hseq hsel hm hnf hfin


/-- test for "idle until an event" (`Mode` has no decidable equality) -/
def modeIsIdleUntilEvent : Mode → Bool
  | .idle .untilEvent => true
  | _ => false

theorem of_modeIsIdleUntilEvent {m : Mode} (h : modeIsIdleUntilEvent m = true) : m = .idle .untilEvent := by
  cases m with
  | idle n => cases n <;> first | rfl | cases h
  | _ => cases h

/-- every hypothesis of `reachable_series_converges_partial` holds for the reachable state `exPair` (20-octet
    solicited buffer: three fragments), the master of `exSm` and READ g60v1 with sequence number 3 -/
example :
    10 ≤ ({ sol := 20 } : OCfg).sol ∧ ({ sol := 20 } : OCfg).sol ≤ 2048 ∧ 4 ≤ ({ sol := 20 } : OCfg).unsol ∧
    ({} : OEnv).outstation = outstationAddr ∧ 2 ≤ ({} : OEnv).rx ∧
    (({ sol := 20 } : OCfg).anymaster = true ∨ Pair.masterAddr = ({ sol := 20 } : OCfg).master) ∧
    exPair.o.mode = .idle .untilEvent ∧ exPair.o.lastBroadcast = none ∧ exPair.o.db.queue = [] ∧ AllUnsel exPair.o.db ∧
    [0xC0 + 3, 1, 60, 1, 6].length ≤ ({} : OEnv).rx ∧
    dbSelectAll exPair.o.db [class0Hdr] = (exPair.o.db.selectClass0.1, 0) ∧
    MWait exSm outstationAddr (.integrity 15) 3 true ∧
    (∀ k, k < 2 → (fragW (20 - 4) exPair.o.db.selectClass0.1 k).2.2.2 = false) ∧
    (fragW (20 - 4) exPair.o.db.selectClass0.1 2).2.2.2 = true := by
  have hc0 : Class0Db exPair.o.db := reachable_class0Db exPair_reachable
  refine ⟨by decide, by decide, by decide, rfl, by decide, .inr rfl, of_modeIsIdleUntilEvent (by decide +kernel), by decide +kernel,
    by decide +kernel, by unfold AllUnsel; decide +kernel, by decide, sel_class0 _ hc0 (by decide +kernel),
    ⟨⟨5000, rfl⟩, ⟨_, rfl, rfl⟩, by decide⟩, ?_, by decide +kernel⟩
  intro k hk
  have : k = 0 ∨ k = 1 := by omega
  rcases this with rfl | rfl <;> decide +kernel

/-! ## § events: released only upon the awaited confirm; the at-least-once clause is false (D32) -/

/-
FULL STATEMENT (FALSE of the pair model, `events_at_least_once_counterexample`): "in every run of the pair model
from `Pair.start …` without `inject`, if a step releases event id `e` (`event_cleared e` among the outstation's
outputs) then a fragment carrying record `e` was delivered to the master's handler earlier in the run."
What holds, link by link (the chain outstation ← wire ← master ← wire ← outstation):
  1. `release_needs_awaited_confirm` (below): the release happens at a confirm point — the fragment the step looks
     at is a CONFIRM with exactly the UNS bit and sequence number the session awaits, and `e` is the id of a
     record `Written` in the database at that point;
  2. `wire_carries_only_what_was_sent` (i.b): without `inject`, that CONFIRM was transmitted earlier by the master;
  3. `master_confirm_means_accepted`, `read_confirm_delivered` (§ master): the master transmits a CONFIRM only in a
     step whose input is a fragment it accepts with CON; for a READ in flight the step's outputs are `deliverBegin`,
     the handler calls of EVERY parsed header of that fragment, `deliverEnd`, the CONFIRM, then only quiet
     outputs; for an unsolicited response C15 `unsolicited_confirmed_contents_delivered` (delivered now, or an
     identical fragment was delivered before);
  4. `wire_carries_only_what_was_sent` again: that fragment was transmitted earlier by the outstation.
THE TWO LINKS THAT ARE MISSING, exactly:
  (L1, no stale confirm) the fragment the master confirmed in 3 is the fragment whose confirm the outstation awaits
     in 1.  It has the same UNS bit and sequence number, but after a wrap of the 4-bit sequence number it can be an
     OLDER one (D32); payload equality does not identify a transmission, and the wire items of `Pair` carry no
     identity, so (L1) is not expressible as a predicate on the group history alone — it is a hypothesis on the two
     steps of links 1 and 3.  A state predicate at op boundaries ("no CON-flagged fragment / confirm in flight other
     than the awaited one") does NOT imply it: sixteen requests queued towards the outstation make it open a new
     series with the same sequence number inside one op.  In the same run the stale fragment with sequence number 1
     is accepted AND CONFIRMED by the master as the response to its clear-restart WRITE with sequence number 1
     (`validate_non_read_response` looks at source, sequence number, FIR/FIN and IIN2 only): the cross-task variant.
  (L2, session invariant) every record that is `Written` is carried by the fragment whose confirm is awaited (the
     last fragment transmitted in the current series).  Established by each writer from a clean database
     (`outstation_writes_only_database_values`, `write_marks_prefix`, C03 (b) `reachable_sessClean`), kept by
     updates / selections (the `Written` set only shrinks during a wait); not proved over `Outstation.step` here.
-/

/-- **an event is released only upon the confirm the session awaits.**  If one step of the outstation session
    model (any state `s`, any input) emits `event_cleared id`, then the step ran the session machinery
    (`StepInit`) on a fragment `pf` (`StepFrag`: for an `rx` input the fragment just received), and at some point
    `b` of the step (`Reach`) the session was at a confirm point: `pf` is a CONFIRM (function code 0), and either a
    solicited series awaits exactly its sequence number (UNS clear), or a DATA unsolicited series does (UNS set);
    and `id` is the id of a record that is `Written` in the database at that point (`clearWritten` releases
    exactly the `Written` records, `clear_releases_exactly_written`) -/
theorem release_needs_awaited_confirm (env : OEnv) (s : OState) (inp : OInput) (id : Nat)
    (hrel : OOut.cb (.eventCleared id) ∈ (Outstation.step env s inp).2) :
    ∃ pf s0 o0 b, StepInit env s inp pf s0 o0 ∧ StepFrag env s inp pf ∧ Reach pf (s0, o0) b ∧
      ConfirmPoint pf b ∧ id ∈ (b.1.db.events.filter DbProofs.isWritten).map (·.id) :=
  @Dnp3.Proofs.C02Events.release_needs_awaited_confirm env s inp id hrel

/-- **D32, kernel-checked.**  The run `d32Ops` from `d32Start` contains no `inject` and no `cut`.
    Before its last op (the release of the stalled direction) the outstation's event buffer holds the records
    with ids 0 (binary input 0 = 1) and 1 (binary input 0 = 0), both `Written`: carried by the answer to the 17th
    READ, which awaits its confirm.  Over the WHOLE run the master's handler receives exactly one `handle_*` call
    with data: g2v1 index 0, flags 0x81 — event 0.  The last op makes the outstation emit `event_cleared 0` and
    `event_cleared 1`; afterwards the buffer is empty and no overflow was ever flagged.  Record 1 was released and
    never delivered. -/
theorem events_at_least_once_counterexample :
    let r := Pair.run d32Start.1 d32Ops
    let r1 := Pair.run d32Start.1 d32Ops.dropLast
    d32Ops.all (fun op => !isInjectOrCut op) = true ∧
    r1.1.o.db.events.map (fun e => (e.id, e.index, e.m.value, e.st)) = [(0, 0, 1, .written), (1, 0, 0, .written)] ∧
    clearedOf (d32Start.2 ++ r1.2.flatten) = [] ∧
    deliveriesOf (d32Start.2 ++ r.2.flatten) = [.deliverHdr (.assoc 1024) 2 1 0x28 [(0, [0x81])]] ∧
    clearedOf (d32Start.2 ++ r.2.flatten) = [0, 1] ∧
    r.1.o.db.events = [] ∧ r.1.o.db.overflown = false ∧ r1.1.o.db.overflown = false :=
  @Dnp3.Proofs.C02Events.events_at_least_once_counterexample 


/-- the hypothesis of `release_needs_awaited_confirm` is satisfiable: the outstation of the D32 run, before the last
    op, awaits the confirm of the fragment with sequence number 0 that carries records 0 and 1; on `C0 00` it
    releases both -/
example :
    OOut.cb (.eventCleared 1) ∈
      (Outstation.step {} (Pair.run d32Start.1 d32Ops.dropLast).1.o (.rx 1 1024 [0xC0, 0])).2 := by
  have h : Cb.eventCleared 1 ∈ cbs (Outstation.step {} (Pair.run d32Start.1 d32Ops.dropLast).1.o (.rx 1 1024 [0xC0, 0])).2 := by
    decide +kernel
  unfold cbs at h
  obtain ⟨o, ho, e⟩ := List.mem_filterMap.mp h
  cases o <;> simp at e
  subst e
  exact ho
/-- a decidable freshness check on the group history of a run without `cut` / `inject` — "every solicited response
    handed to the master was transmitted after the request the master sent last" (`noLateResponse`; the `k`-th payload
    handed to the master is the `k`-th payload the outstation transmitted): it fails on the D32 run and holds on the
    same run without the stall.  It is the run-level reading of (L1) for solicited responses; that it implies (L1)
    is NOT proved -/
example :
    noLateResponse (d32Start.2 ++ (Pair.run d32Start.1 d32Ops).2.flatten) = false ∧
    noLateResponse (d32Start.2 ++ (Pair.run d32Start.1
      (d32Ops.filter fun op => match op with | .setHold .. => false | _ => true)).2.flatten) = true :=
  ⟨by decide +kernel, by decide +kernel⟩

end Reach

section MasterSide
open Dnp3 Dnp3.Master Dnp3.Proofs.Master Dnp3.Proofs.C02Master Dnp3.Proofs.C02SeriesMaster Dnp3.Proofs.C02MasterQuiet

/-! ## § master: the master session model, step level -/

/-- **one step of the master session model on a NON-FINAL fragment of the answer** (FIR iff first, CON, the
    expected sequence number, acceptable IIN2, parsable objects): exactly the delivery bracket and the CONFIRM
    are emitted, and the master waits for the next fragment with the next sequence number -/
theorem step_read_nonfinal (s : MState) (dest : Nat) (t : ReadTask) (seq : Nat) (isFirst : Bool)
    (c i1 i2 : Nat) (objs : List Nat) (hs : List ObjHdr)
    (hw : MWait s dest t seq isFirst)
    (hctrl : AppCtrl.ofNat c = ⟨isFirst, false, true, false, seq⟩)
    (hi2 : i2 &&& 7 = 0)
    (hparse : parseRespObjects objs.length objs = some hs)
    (hsrc : dest < 0xFFF0) (hlen : 4 + objs.length ≤ 2048) :
    ∃ s', Master.step s (.rx dest masterAddr ([c, 0x81, i1, i2] ++ objs)) =
        (s', [.deliverBegin (whoOf dest t) (rtOf t) (AppCtrl.ofNat c).toNat i1 i2] ++
          hs.flatMap (headerCalls (whoOf dest t)) ++ [.deliverEnd (whoOf dest t) (rtOf t), .tx dest [0xC0 + seq, 0]]) ∧
      MWait s' dest t (seq4Next seq) false :=
  @Dnp3.Proofs.C02SeriesMaster.step_read_nonfinal s dest t seq isFirst c i1 i2 objs hs hw hctrl hi2 hparse hsrc hlen


/-- **one step of the master session model on anything but a received application fragment emits neither a
    delivery nor a CONFIRM** -/
theorem master_step_quiet (s : MState) (inp : MInput) (hin : ∀ src dst data, inp ≠ .rx src dst data) :
    Quiet (s, []) (Master.step s inp) :=
  @Dnp3.Proofs.C02MasterQuiet.step_quiet s inp hin

/-- … and it is not dropped when it is addressed to the master, comes from a unicast address, is not empty and
    fits the receive buffer -/
theorem master_step_rx_quiet (s : MState) (src : Nat) (frag : List Nat)
    (hsrc : src < 0xFFF0) (hne : frag.isEmpty = false) (hlen : frag.length ≤ 2048) :
    Quiet (onFragment (s, []) src frag).acc (Master.step s (.rx src masterAddr frag)) :=
  @Dnp3.Proofs.C02MasterQuiet.step_rx_not_dropped_quiet s src frag hsrc hne hlen

/-- **the confirms of one step of the master session model**: none, unless the input is an application fragment
    that reaches the session and parses as a response — then exactly `expectedConfirms` (the READ rule, the
    non-READ rule or the unsolicited rule of C15 `confirm_exactly_when`) -/
theorem master_step_confirms (s : MState) (inp : MInput) :
    confirmsOf (Master.step s inp).2 =
      (match inp with
       | .rx src dst frag =>
         if dst ≠ masterAddr ∨ src ≥ 0xFFF0 ∨ frag.isEmpty = true ∨ frag.length > 2048 then []
         else (match parseResponse frag with
           | some r => expectedConfirms s src r
           | none => [])
       | _ => []) :=
  @Dnp3.Proofs.C02MasterQuiet.step_confirms s inp


/-- a CONFIRM emitted by one step of the master session model answers the application fragment received in that step -/
theorem master_confirm_means_accepted (s : MState) (inp : MInput) (d c : Nat)
    (h : (d, c) ∈ confirmsOf (Master.step s inp).2) :
    ∃ src frag r, inp = .rx src masterAddr frag ∧ src < 0xFFF0 ∧ frag.isEmpty = false ∧ frag.length ≤ 2048 ∧
      parseResponse frag = some r ∧ (d, c) ∈ expectedConfirms s src r :=
  @Dnp3.Proofs.C02EventsMaster.master_confirm_means_accepted s inp d c h

/-- **a solicited CONFIRM during a READ means: accepted, delivered, then confirmed.**  The master waits for a
    fragment of the answer to a READ; one step emits the solicited confirm `[0xC0 + seq, 0]` to `dest`.  Then the
    input was a fragment from `dest` that parses as a solicited response with CON which `process_read_response`
    accepted, and the outputs of the step are: `deliverBegin`, the handler calls of EVERY parsed object header of
    that fragment (`headerCalls`, in order), `deliverEnd`, the CONFIRM, followed by outputs that are neither
    deliveries nor confirms. -/
theorem read_confirm_delivered (s : MState) (dest : Nat) (t : ReadTask) (seq dl : Nat) (isFirst : Bool) (inp : MInput)
    (hm : s.mode = .waitRead dest t seq isFirst dl)
    (h : (dest, 0xC0 + seq) ∈ confirmsOf (Master.step s inp).2) (hseq : seq < 16) :
    ∃ frag r hs fin l, inp = .rx dest masterAddr frag ∧ parseResponse frag = some r ∧ r.unsol = false ∧
      r.ctrl.con = true ∧ r.ctrl.seq = seq ∧ r.objects = some hs ∧
      processReadResponse dest seq isFirst (s.getAssoc dest).isSome dest r = .accept true fin ∧
      (Master.step s inp).2 = [.deliverBegin (whoOf dest t) (rtOf t) r.ctrl.toNat r.iin1 r.iin2] ++
        hs.flatMap (headerCalls (whoOf dest t)) ++ [.deliverEnd (whoOf dest t) (rtOf t), .tx dest [0xC0 + seq, 0]] ++ l ∧
      ∀ o ∈ l, QuietOut o :=
  @Dnp3.Proofs.C02EventsMaster.read_confirm_delivered s dest t seq dl isFirst inp hm h hseq


/-- hypotheses of `read_confirm_delivered`: the master of `ovfDemo` waits for the first fragment of a READ with
    sequence number 0; on the non-final fragment `ovfFrag` the step emits the confirm `C0 00` -/
example : ovfDemo.mode = .waitRead 1024 (.poll 0 7) 0 true 5000 ∧
    (1024, 0xC0 + 0) ∈ confirmsOf (Master.step ovfDemo (.rx 1024 1 ovfFrag)).2 := by
  refine ⟨rfl, ?_⟩
  decide +kernel

/-- hypothesis of `step_read_nonfinal`: `MWait` for that state -/
example : MWait ovfDemo 1024 (.poll 0 7) 0 true := ⟨⟨5000, rfl⟩, ⟨_, rfl, rfl⟩, by decide⟩

example : ∀ src dst data, MInput.tick 5000 ≠ .rx src dst data := by intro _ _ _ h; cases h

/-- hypotheses of `master_step_rx_quiet`: a unicast source, a non-empty fragment that fits -/
example : (1024 : Nat) < 0xFFF0 ∧ ovfFrag.isEmpty = false ∧ ovfFrag.length ≤ 2048 := by decide

end MasterSide
end Dnp3.Props.C02
