import Dnp3.Props.C07Base
import Dnp3.Proofs.LinkLayerHist
import Dnp3.Props.C07App
/-!
# C07 — history-level theorems (every list of link headers)
-/
namespace Dnp3.Props.C07
open Dnp3 Dnp3.Proofs.LinkLayerHist

/-- the secondary-station state changes only through an accepted reset (to "expect 1") or a
    delivered confirmed-data frame (toggle); both only for frames addressed to this endpoint -/
theorem sec_changes_only_by_reset_or_delivery (cfg : LinkCfg) (sec : SecState) (h : LHeader)
    (hne : (processHeader cfg sec h).1 ≠ sec) :
    Addressed cfg h ∧
    (((Control.ofNat h.ctrl).func = .priResetLinkStates ∧ (Control.ofNat h.ctrl).fcv = false ∧
        ∃ s, processHeader cfg sec h = (.reset true, none, some ⟨s, .secAck⟩)) ∨
     ((Control.ofNat h.ctrl).func = .priConfirmedUserData ∧ (Control.ofNat h.ctrl).fcv = true ∧
        ∃ s b, sec = .reset (Control.ofNat h.ctrl).fcb ∧
          (processHeader cfg sec h).1 = .reset (!(Control.ofNat h.ctrl).fcb) ∧
          (processHeader cfg sec h).2.1 = some ⟨s, b, .data⟩)) :=
  Dnp3.Proofs.LinkLayerHist.sec_changes_only_by_reset_or_delivery cfg sec h hne

/-- **confirmed user data is delivered at most once per frame-count-bit toggle**: over ANY
    history of confirmed-data frames from state `reset e`, the frame count bits of the
    delivered frames are exactly e, !e, e, … -/
theorem confirmed_once_per_toggle (cfg : LinkCfg) (hs : List LHeader)
    (hc : ∀ h ∈ hs, (Control.ofNat h.ctrl).func = .priConfirmedUserData) :
    ∀ e, deliveredFcbs cfg (.reset e) hs = alt e (deliveredFcbs cfg (.reset e) hs).length :=
  deliveredFcbs_alternate cfg hs hc

/-- … and nothing is delivered before a link reset -/
theorem confirmed_needs_reset (cfg : LinkCfg) (hs : List LHeader)
    (hc : ∀ h ∈ hs, (Control.ofNat h.ctrl).func = .priConfirmedUserData) :
    deliveredFcbs cfg .notReset hs = [] :=
  deliveredFcbs_notReset cfg hs hc

/-- consecutive delivered frames never carry the same frame count bit -/
theorem no_repeated_fcb_delivered (b : Bool) (n i : Nat) (h : i + 1 < n) :
    (alt b n)[i]'(by rw [alt_length]; omega) ≠ (alt b n)[i+1]'(by rw [alt_length]; omega) :=
  alt_adjacent_ne b n i h

end Dnp3.Props.C07
