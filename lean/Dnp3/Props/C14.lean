import Dnp3.Model.OutstationTrace
import Dnp3.Proofs.OutstationC14
import Dnp3.Proofs.OutstationC14Trace
/-!
# C14 — Unsolicited reporting obeys the start-up, enable, retry and deferral rules

Theorems over the outstation session model for ALL states / inputs / histories; the database is
opaque in every proof (`Dnp3.Proofs.OutstationC14`).  Restated verbatim; the definitions used in the
statements (`NullInv`, `StepFrag`, `IsUnsolConfirm`, `IsDisable`, `NotUW`, `AnswerIn`, `Ev`, …) are
in `Dnp3.Proofs.OutstationSkel` / `OutstationC14`.

* `null_until_confirmed`, `nullInv_reachable`, `null_series_start`, `null_timeout_regenerates`,
  `null_never_retried`: nothing but NULL unsolicited responses until one is confirmed;
* `data_only_enabled`, `data_series_start`, `db_consulted_only_when_enabled`,
  `enables_change_only_by_20_21`, `no_unsolicited_while_disabled`, `wake_on_update`;
* `one_outstanding`: while a series awaits its confirm no other series starts;
* `retries_bounded_unchanged`, `unsolWaitTimeout_spec`: a retry is the same octets, the counter
  decrements, the series ends at zero;
* `series_spacing`, `series_end_sets_delay`, `no_series_before_delay`;
* `read_deferred_not_dropped`, `deferred_*`, `nonread_answered_in_wait`.

Whole-trace theorems (`Dnp3.Proofs.OutstationC14Trace`, over ALL runs `Outstation.run` from `Outstation.start`,
outputs `traceOuts`; built on the phase-labelled event skeleton `Dnp3.Proofs.OutstationSkel2`):
* `unsol_trace_monitored`: the executable monitor `uMon` accepts every trace;
* `null_until_confirmed_trace` (C14.1), `unsol_tx_accounted`, `retries_bounded_trace` (C14.4: at most `1 + n`
  transmissions of a fragment, every retransmission octet-for-octet the first one, for every IIN history);
* `one_outstanding_sol`, `one_outstanding_sol_run` (C14.3 for the solicited confirm wait), `solInv_reachable`.
-/
namespace Dnp3.Props.C14
open Dnp3 Dnp3.Proofs.Frame Dnp3.Proofs.Iin Dnp3.Proofs.Skel Dnp3.Proofs.C14 Dnp3.Proofs.Skel2 Dnp3.Proofs.C14Trace

/-- with unsolicited support disabled nothing unsolicited is ever started -/
theorem disabled_never_starts (a : Acc) (h : a.1.cfg.unsolicited = false) :
    checkUnsolicited a = some (.inr (a, .untilEvent)) := by
  unfold checkUnsolicited
  simp [h]

/-- the tail of `check_unsolicited`: a null series that is not confirmed leaves the start-up
    state unchanged (NullRequired), a confirmed one enters Ready; a data series that ends without
    confirmation arms the retry delay -/
theorem after_series (a : Acc) :
    (afterUnsolSeries a true false).1.1.unsol = .nullRequired ∧
    (afterUnsolSeries a true true).1.1.unsol = .ready none ∧
    (afterUnsolSeries a false false).1.1.unsol = .ready (some (a.1.now + a.1.cfg.rdelay)) := by
  unfold afterUnsolSeries
  simp


/-! ## Session theorems -/

/-- **C14.1** (`null_until_confirmed`), per step, for every input, from any state satisfying `NullInv`
    (all reachable states do, `nullInv_reachable`): the consistency is kept, and `unsol` leaves
    `nullRequired` only in a step that accepted an unsolicited confirm with the matching sequence
    number — witnessed by the `unsolConfirmed` callback, the fragment examined being an unsolicited
    CONFIRM. -/
theorem null_until_confirmed (env : OEnv) (s : OState) (inp : OInput) (hi : NullInv s) :
    NullInv (Outstation.step env s inp).1 ∧
    (s.unsol = .nullRequired →
      (Outstation.step env s inp).1.unsol = .nullRequired ∨
      ((∃ q, OOut.cb (.unsolConfirmed q) ∈ (Outstation.step env s inp).2) ∧
        ∃ pf, StepFrag env s inp pf ∧ IsUnsolConfirm pf)) :=
  @Dnp3.Proofs.C14.null_until_confirmed env s inp hi

theorem nullInv_reachable (cfg : OCfg) (evMax : Nat) (env : OEnv) (s : OState)
    (h : Outstation.Reachable cfg evMax env s) : NullInv s :=
  @Dnp3.Proofs.C14.nullInv_reachable cfg evMax env s h

/-- **C14.1 (a)** while a null response is required, `checkUnsolicited` starts exactly this: an empty
    unsolicited response (no objects, 4 octets on the wire), flagged null, carrying the current
    `unsolSeq`, which is advanced; its retry counter is `some 0` (never re-sent: regenerated). -/
theorem null_series_start (a : Acc) (res : Acc ⊕ (Acc × NextIdle)) (h : checkUnsolicited a = some res)
    (hu : a.1.cfg.unsolicited = true) (hn : a.1.unsol = .nullRequired) :
    ∃ a' r' bytes, res = .inl a' ∧
      a'.1.mode = .unsolWait r' true (some 0) (a.1.now + a.1.cfg.ctimeout) ∧
      r'.size = 0 ∧ r'.func = 0x82 ∧ r'.ctrl = ⟨true, true, true, true, a.1.unsolSeq⟩ ∧
      a'.1.unsolSeq = seq4Next a.1.unsolSeq ∧ a'.1.unsol = .nullRequired ∧
      a'.2 = a.2 ++ [.tx a.1.cfg.master bytes, .cb (.unsolWait a.1.unsolSeq)] ∧
      bytes.length = 4 ∧ bytes.take 2 = [r'.ctrl.toNat, 0x82] :=
  @Dnp3.Proofs.C14.null_series_start a res h hu hn

/-- **C14.1 (b)** a null response is never re-sent: when its confirm wait times out the series ends
    (`unsolTimeout seq false`) and `unsol` stays `nullRequired`, so the next pass regenerates it
    with the next sequence number. -/
theorem null_timeout_regenerates (a : Acc) (resp : Resp) :
    unsolWaitTimeout a resp true (some 0) =
      finishUnsol (emitCb a (.unsolTimeout resp.ctrl.seq false)) true false ∧
    (afterUnsolSeries (emitCb a (.unsolTimeout resp.ctrl.seq false)) true false).1.1.unsol = .nullRequired :=
  @Dnp3.Proofs.C14.null_timeout_regenerates a resp

/-- null responses are never retried: their retry counter is `some 0` (`NullInv`), so the timeout ends the series -/
theorem null_never_retried (s : OState) (hi : NullInv s) (resp : Resp) (rt : Option Nat) (dl : Nat)
    (hm : s.mode = .unsolWait resp true rt dl) : rt = some 0 :=
  @Dnp3.Proofs.C14.null_never_retried s hi resp rt dl hm

/-- **C14.4** (`retries_bounded_unchanged`), as a step: a clock advance reaching the deadline of an
    unsolicited confirm wait (no fragment pending, no READ deferred, retries left) re-sends `resp`
    unchanged, decrements the retry counter and re-arms the deadline at `now + ctimeout`;
    before the deadline nothing happens. -/
theorem retries_bounded_unchanged (env : OEnv) (s : OState) (ms : Nat) (resp : Resp) (isNull : Bool)
    (retries : Option Nat) (dl : Nat)
    (hm : s.mode = .unsolWait resp isNull retries dl) (hp : s.pending = none) :
    (s.now + ms < dl → Outstation.step env s (.tick ms) = ({ s with now := s.now + ms }, [])) ∧
    (dl ≤ s.now + ms → s.deferred = none →
      ∀ retries', (retries = none ∧ retries' = none) ∨ (∃ n, retries = some (n + 1) ∧ retries' = some n) →
      Outstation.step env s (.tick ms) =
        ({ s with now := s.now + ms, unsolBuf := writeAt s.unsolBuf 0 (respHeader resp),
                  mode := .unsolWait resp isNull retries' (s.now + ms + s.cfg.ctimeout) },
         [.cb (.unsolTimeout resp.ctrl.seq true), .tx s.cfg.master (unsolBytes s resp)])) ∧
    (dl ≤ s.now + ms → (s.deferred.isSome = true ∨ retries = some 0) →
      Outstation.step env s (.tick ms) =
        finishStep (settle 8 (finishUnsol
          (emitCb ({ s with now := s.now + ms }, []) (.unsolTimeout resp.ctrl.seq false)) isNull false))) :=
  @Dnp3.Proofs.C14.retries_bounded_unchanged env s ms resp isNull retries dl hm hp

/-- what `unsolWaitTimeout` does, exactly.
    * a READ is deferred, or the retry counter is `some 0` (always so for null responses): no
      retransmission, the series ends with `unsolTimeout seq false`;
    * otherwise `resp` is re-sent unchanged (`repeatUnsolicited`), the counter `some (n+1)` becomes
      `some n` (`none` = unbounded stays `none`), and the new deadline is `now + ctimeout`. -/
theorem unsolWaitTimeout_spec (a : Acc) (resp : Resp) (isNull : Bool) (retries : Option Nat) :
    ((a.1.deferred.isSome = true ∨ retries = some 0) →
      unsolWaitTimeout a resp isNull retries =
        finishUnsol (emitCb a (.unsolTimeout resp.ctrl.seq false)) isNull false) ∧
    (a.1.deferred = none → ∀ retries', (retries = none ∧ retries' = none) ∨ (∃ n, retries = some (n + 1) ∧ retries' = some n) →
      unsolWaitTimeout a resp isNull retries =
        .blocked ({ a.1 with unsolBuf := writeAt a.1.unsolBuf 0 (respHeader resp),
                             mode := .unsolWait resp isNull retries' (a.1.now + a.1.cfg.ctimeout) },
                  a.2 ++ [.cb (.unsolTimeout resp.ctrl.seq true), .tx a.1.cfg.master (unsolBytes a.1 resp)])) :=
  @Dnp3.Proofs.C14.unsolWaitTimeout_spec a resp isNull retries

/-- **C14.3** (`one_outstanding`): a step that begins in the unsolicited confirm wait for `resp`
    (`mode = unsolWait resp …`) — whatever the input —
    * either emits no new unsolicited response (`Cb.unsolWait` marks the start of one; a retry of the
      stored response is not one) and is still waiting for the confirmation of the same `resp`
      (or the task panicked),
    * or is a disconnect,
    * or the outputs split as `pre ++ post` with nothing new started in `pre` and the reason the wait
      ended visible by then: an accepted confirm (`unsolConfirmed`), a timeout without retry
      (`unsolTimeout _ false`), or the fragment examined being DISABLE_UNSOLICITED. -/
theorem one_outstanding (env : OEnv) (s : OState) (inp : OInput) (resp : Resp) (isNull : Bool)
    (rt : Option Nat) (dl : Nat) (hm : s.mode = .unsolWait resp isNull rt dl) :
    ((∀ o ∈ (Outstation.step env s inp).2, OOut.kind o ≠ .unsolWait) ∧
      ((∃ rt' dl', (Outstation.step env s inp).1.mode = .unsolWait resp isNull rt' dl') ∨
        OOut.panic ∈ (Outstation.step env s inp).2)) ∨
    inp = .cut ∨
    (∃ pre post, (Outstation.step env s inp).2 = pre ++ post ∧ (∀ o ∈ pre, OOut.kind o ≠ .unsolWait) ∧
      ((∃ q, OOut.cb (.unsolConfirmed q) ∈ pre) ∨ (∃ q, OOut.cb (.unsolTimeout q false) ∈ pre) ∨
        ∃ pf, StepFrag env s inp pf ∧ IsDisable pf)) :=
  @Dnp3.Proofs.C14.one_outstanding env s inp resp isNull rt dl hm

/-- **C14.5** (`series_spacing`), per step: after a data series ended unconfirmed at `t`
    (`unsol = ready (t + rdelay)`, see `series_end_sets_delay`), no step whose clock is still below
    `t + rdelay` starts a new series — whatever the input — and the deadline stays armed. -/
theorem series_spacing (env : OEnv) (s : OState) (inp : OInput) (d : Nat)
    (hu : s.unsol = .ready (some d)) (hm : NotUW s.mode) (hlt : stepNow s inp < d) :
    (Outstation.step env s inp).1.unsol = .ready (some d) ∧ NotUW (Outstation.step env s inp).1.mode ∧
    ∀ o ∈ (Outstation.step env s inp).2, OOut.kind o ≠ .unsolWait :=
  @Dnp3.Proofs.C14.series_spacing env s inp d hu hm hlt

/-- (a) a data series that ends without confirmation at time `t` arms the retry delay: `unsol = ready (t + rdelay)`
    (and resets the database: the events it carried go back to unwritten, D4 repaired) -/
theorem series_end_sets_delay (a : Acc) :
    afterUnsolSeries a false false =
      (({ a.1 with db := a.1.db.reset, unsol := .ready (some (a.1.now + a.1.cfg.rdelay)) }, a.2),
        .until (a.1.now + a.1.cfg.rdelay)) :=
  @Dnp3.Proofs.C14.series_end_sets_delay a

/-- (b) until that time `checkUnsolicited` starts nothing (it only reports when to look again) -/
theorem no_series_before_delay (a : Acc) (d : Nat) (hu : a.1.cfg.unsolicited = true)
    (hr : a.1.unsol = .ready (some d)) (hlt : a.1.now < d) :
    checkUnsolicited a = some (.inr (a, .until d)) :=
  @Dnp3.Proofs.C14.no_series_before_delay a d hu hr hlt

/-- **C14.6** (`read_deferred_not_dropped`): (a) a READ handled in the unsolicited confirm wait is stored in
    `deferred` (sequence number, source, supported headers) and the wait goes on; (b) `handleDeferredRead`
    takes it out and answers it with FIR and its own sequence number to its source; (c) when the confirm
    timeout arrives with a READ deferred, the retry is suppressed, the series ends and the READ is
    answered in that very step (unless the task panics). -/
theorem read_deferred_not_dropped :
    (∀ (a : Acc) (resp : Resp) (isNull : Bool) (f : Frag) (ctrl : AppCtrl) (hs : List ObjHdr) (raw : List Nat),
      a.1.pending = some f → parseRequest f.data = .request ctrl 1 (.ok hs) raw →
      (a.1.cfg.anymaster = true ∨ f.src = a.1.cfg.master) → f.broadcast = none →
      unsolWaitOnFragment a resp isNull =
        .blocked ({ onLinkActivity { a.1 with pending := none } with
          deferred := some ⟨f.data, ctrl.seq, f.src, (keptHdrs a.1.cfg.maxReadHeaders hs).2,
            (keptHdrs a.1.cfg.maxReadHeaders hs).1⟩ }, a.2)) ∧
    (∀ (a : Acc) (next : NextIdle) (d : Deferred) (res : Acc ⊕ Acc), a.1.deferred = some d →
      handleDeferredRead a next = some res →
      ∃ (a' : Acc) (r2 : Resp) (bytes : List Nat) (post : List OOut), (res = .inl a' ∨ res = .inr a') ∧ a'.1.deferred = none ∧
        a'.2 = a.2 ++ [.tx d.addr bytes] ++ post ∧ bytes.take 2 = [r2.ctrl.toNat, 0x81] ∧
        r2.ctrl.fir = true ∧ r2.ctrl.seq = d.seq ∧ r2.ctrl.uns = false) ∧
    (∀ (env : OEnv) (s : OState) (ms : Nat) (resp : Resp) (isNull : Bool) (retries : Option Nat) (dl : Nat)
      (d : Deferred), s.mode = .unsolWait resp isNull retries dl → s.pending = none → s.deferred = some d →
      dl ≤ s.now + ms →
      OOut.panic ∈ (Outstation.step env s (.tick ms)).2 ∨ AnswerIn d (Outstation.step env s (.tick ms)).2) :=
  @Dnp3.Proofs.C14.read_deferred_not_dropped 

/-- **C14.6 (b)** the only events that change `deferred`: an explicit clear (a superseding fragment
    handled in the wait, or the end of the deferred READ's own confirm wait), storing a newer READ, and
    `handleDeferredRead` answering it.  (A disconnect clears it in the step prologue, `cutState`.) -/
theorem deferred_only_changed_by {pf : Option Frag} {a a' : Acc} (h : Ev pf a a') :
    a'.1.deferred = a.1.deferred ∨
    a' = ({ a.1 with deferred := none }, a.2) ∨
    (∃ f ctrl hs raw, ReqOf pf f ctrl 1 (.ok hs) raw ∧ f.broadcast = none ∧ a' = (deferredSet a.1 f ctrl.seq hs, a.2)) ∨
    (∃ n d, a.1.deferred = some d ∧ a'.1.deferred = none ∧
      (handleDeferredRead a n = some (.inl a') ∨ handleDeferredRead a n = some (.inr a'))) :=
  @Dnp3.Proofs.C14.deferred_only_changed_by pf a a' h

/-- **C14.6 (d)** when the unsolicited series ends (`finishUnsol`, whichever way) with a READ deferred,
    that READ is answered in the same step — unless the task panics. -/
theorem deferred_answered_when_series_ends {pf : Option Frag} (n : Nat) (a : Acc) (isNull c : Bool) (d : Deferred)
    (hp : PendOk pf (afterUnsolSeries a isNull c).1) (hd : a.1.deferred = some d) :
    OOut.panic ∈ (finishStep (settle n (finishUnsol a isNull c))).2 ∨
    AnswerIn d (finishStep (settle n (finishUnsol a isNull c))).2 :=
  @Dnp3.Proofs.C14.deferred_answered_when_series_ends pf n a isNull c d hp hd

/-- **C14.6 (d'), as a step**: a READ was deferred; the confirm timeout arrives (a pending deferred READ
    suppresses the retry, see `retries_bounded_unchanged`): the READ is answered in that very step. -/
theorem deferred_read_answered_at_timeout (env : OEnv) (s : OState) (ms : Nat) (resp : Resp) (isNull : Bool)
    (retries : Option Nat) (dl : Nat) (d : Deferred)
    (hm : s.mode = .unsolWait resp isNull retries dl) (hp : s.pending = none) (hd : s.deferred = some d)
    (hle : dl ≤ s.now + ms) :
    OOut.panic ∈ (Outstation.step env s (.tick ms)).2 ∨ AnswerIn d (Outstation.step env s (.tick ms)).2 :=
  @Dnp3.Proofs.C14.deferred_read_answered_at_timeout env s ms resp isNull retries dl d hm hp hd hle

/-- **C14.6 (e)** a new non-READ request handled during the wait is answered immediately (same step),
    whenever its handler yields a response: the response is transmitted to the request's source before
    `unsolWaitOnFragment` returns (and the wait goes on, except for DISABLE_UNSOLICITED which ends it).
    It also supersedes a deferred READ (`deferred := none` before the handler runs). -/
theorem nonread_answered_in_wait (a : Acc) (resp : Resp) (isNull : Bool) (f : Frag) (ctrl : AppCtrl) (func : Nat)
    (hs : List ObjHdr) (raw : List Nat) (hp : a.1.pending = some f)
    (hq : parseRequest f.data = .request ctrl func (.ok hs) raw)
    (hm : a.1.cfg.anymaster = true ∨ f.src = a.1.cfg.master)
    (hcl : classify (onLinkActivity { a.1 with pending := none }) f ctrl func (.ok hs) = .newNonRead hs)
    (a4 : Acc) (r : Resp)
    (hn : handleNonRead ({ onLinkActivity { a.1 with pending := none } with deferred := none }, a.2)
      func ctrl.seq f.id hs raw = some (a4, some r)) :
    (writeSolicited a4 f.src r = none ∧ unsolWaitOnFragment a resp isNull = die a4) ∨
    (∃ a5 r5 bytes, writeSolicited a4 f.src r = some (a5, r5) ∧ a5.2 = a4.2 ++ [.tx f.src bytes] ∧
      unsolWaitOnFragment a resp isNull =
        (if func = 21 then
          finishUnsol ({ a5.1 with lastReq := some ⟨ctrl.seq, f.data, some r5, none⟩ }, a5.2) isNull false
         else .blocked ({ a5.1 with lastReq := some ⟨ctrl.seq, f.data, some r5, none⟩ }, a5.2))) :=
  @Dnp3.Proofs.C14.nonread_answered_in_wait a resp isNull f ctrl func hs raw hp hq hm hcl a4 r hn

/-- **C14.2 (a)** when `checkUnsolicited` starts a series in the `ready` state, it is a data series built by
    `Db.writeUnsolicited` called with exactly the three enable flags, at least one of them set, the
    retry-delay deadline (if any) passed, and a nonzero event count; the response is not null, carries
    the current `unsolSeq` and its size covers header + objects. -/
theorem data_series_start (a a' : Acc) (dl : Option Nat) (h : checkUnsolicited a = some (.inl a'))
    (hr : a.1.unsol = .ready dl) :
    a.1.cfg.unsolicited = true ∧ (∀ d, dl = some d → d ≤ a.1.now) ∧ (a.1.en1 || a.1.en2 || a.1.en3) = true ∧
    (a.1.db.writeUnsolicited a.1.en1 a.1.en2 a.1.en3 (a.1.cfg.unsol - 4)).2.2 ≠ 0 ∧
    startUnsolSeries ({ afterDbWrite a.1 with unsolSeq := seq4Next a.1.unsolSeq }, a.2)
      (unsolHeader a.1.unsolSeq (4 + (a.1.db.writeUnsolicited a.1.en1 a.1.en2 a.1.en3 (a.1.cfg.unsol - 4)).2.1.length))
      false = some a' :=
  @Dnp3.Proofs.C14.data_series_start a a' dl h hr

/-- **C14.2 (a')** in every other case `checkUnsolicited` does not consult the database: no enable flag
    set, deadline in the future, null response required, unsolicited unsupported -/
theorem db_consulted_only_when_enabled (a : Acc) (res : Acc ⊕ (Acc × NextIdle)) (h : checkUnsolicited a = some res)
    (hc : a.1.cfg.unsolicited = false ∨ a.1.unsol = .nullRequired ∨ (∃ d, a.1.unsol = .ready (some d) ∧ a.1.now < d) ∨
      (a.1.en1 || a.1.en2 || a.1.en3) = false) (a' : Acc) (hr : res = .inl a' ∨ ∃ n, res = .inr (a', n)) :
    a'.1.db = a.1.db :=
  @Dnp3.Proofs.C14.db_consulted_only_when_enabled a res h hc a' hr

/-- **C14.2 (b'), per step**: for every state and input, the class enables change only in a step whose
    fragment is a well-formed ENABLE_UNSOLICITED (20) or DISABLE_UNSOLICITED (21) request — and a DISABLE
    can only clear them. -/
theorem enables_change_only_by_20_21 (env : OEnv) (s : OState) (inp : OInput) :
    EnOf (Outstation.step env s inp).1 = EnOf s ∨
    ∃ pf, StepFrag env s inp pf ∧ (IsFunc pf 20 ∨ (IsFunc pf 21 ∧
      Lowered s.en1 (Outstation.step env s inp).1.en1 ∧ Lowered s.en2 (Outstation.step env s inp).1.en2 ∧
      Lowered s.en3 (Outstation.step env s inp).1.en3)) :=
  @Dnp3.Proofs.C14.enables_change_only_by_20_21 env s inp

/-- **C14.2 (c)** (`data_only_enabled`, per step): once all three classes are disabled (and no unsolicited
    wait is in progress, start-up null response confirmed), no step starts an unsolicited response and
    the classes stay disabled — until a step whose fragment is ENABLE_UNSOLICITED. -/
theorem no_unsolicited_while_disabled (env : OEnv) (s : OState) (inp : OInput)
    (hen : EnOf s = (false, false, false)) (hu : ∃ dl, s.unsol = .ready dl) (hm : NotUW s.mode)
    (hpf : ∀ pf, StepFrag env s inp pf → ¬ IsFunc pf 20) :
    EnOf (Outstation.step env s inp).1 = (false, false, false) ∧
    (∃ dl, (Outstation.step env s inp).1.unsol = .ready dl) ∧ NotUW (Outstation.step env s inp).1.mode ∧
    ∀ o ∈ (Outstation.step env s inp).2, OOut.kind o ≠ .unsolWait :=
  @Dnp3.Proofs.C14.no_unsolicited_while_disabled env s inp hen hu hm hpf

/-- **C14.7** (`wake_on_update`): in idle mode (no fragment pending), a database transaction wakes the
    task (`notified`), and in that same step `checkUnsolicited` is evaluated on the updated database
    (`afterRequest` begins with it).  With unsolicited enabled, `unsol = ready none` and some class
    enabled, it starts a series iff `Db.writeUnsolicited` reports a nonzero count — and then the step
    ends exactly in that series' confirm wait. -/
theorem wake_on_update (env : OEnv) (s : OState) (items : List TxnItem) (next : NextIdle)
    (hm : s.mode = .idle next) (hp : s.pending = none)
    (hu : s.cfg.unsolicited = true) (hr : s.unsol = .ready none) (hen : (s.en1 || s.en2 || s.en3) = true) :
    Outstation.step env s (.txn items) =
      finishStep (settle 8 (afterRequest (runPass 63) (wakeAcc s items))) ∧
    (∀ a', checkUnsolicited (wakeAcc s items) = some (.inl a') ↔
      ((wakeAcc s items).1.db.writeUnsolicited s.en1 s.en2 s.en3 (s.cfg.unsol - 4)).2.2 ≠ 0 ∧
      startUnsolSeries ({ afterDbWrite (wakeAcc s items).1 with unsolSeq := seq4Next s.unsolSeq }, (wakeAcc s items).2)
        (unsolHeader s.unsolSeq (4 + ((wakeAcc s items).1.db.writeUnsolicited s.en1 s.en2 s.en3 (s.cfg.unsol - 4)).2.1.length))
        false = some a') ∧
    (∀ a', checkUnsolicited (wakeAcc s items) = some (.inl a') → Outstation.step env s (.txn items) = a') :=
  @Dnp3.Proofs.C14.wake_on_update env s items next hm hp hu hr hen

/-- **C14.2** (`data_only_enabled`): (a) a data series is built from `Db.writeUnsolicited s.en1 s.en2 s.en3`
    only with some class enabled, `unsol = ready _`, no retry-delay deadline in the future and a nonzero
    event count; (b) per step, the enables change only by ENABLE / DISABLE_UNSOLICITED (a DISABLE only
    clears); (c) with all three disabled no unsolicited response is started until an ENABLE. -/
theorem data_only_enabled (env : OEnv) (s : OState) (inp : OInput) :
    (∀ (a a' : Acc) (dl : Option Nat), checkUnsolicited a = some (.inl a') → a.1.unsol = .ready dl →
      a.1.cfg.unsolicited = true ∧ (∀ d, dl = some d → d ≤ a.1.now) ∧ (a.1.en1 || a.1.en2 || a.1.en3) = true ∧
      (a.1.db.writeUnsolicited a.1.en1 a.1.en2 a.1.en3 (a.1.cfg.unsol - 4)).2.2 ≠ 0 ∧
      startUnsolSeries ({ afterDbWrite a.1 with unsolSeq := seq4Next a.1.unsolSeq }, a.2)
        (unsolHeader a.1.unsolSeq (4 + (a.1.db.writeUnsolicited a.1.en1 a.1.en2 a.1.en3 (a.1.cfg.unsol - 4)).2.1.length))
        false = some a') ∧
    (EnOf (Outstation.step env s inp).1 = EnOf s ∨
      ∃ pf, StepFrag env s inp pf ∧ (IsFunc pf 20 ∨ (IsFunc pf 21 ∧
        Lowered s.en1 (Outstation.step env s inp).1.en1 ∧ Lowered s.en2 (Outstation.step env s inp).1.en2 ∧
        Lowered s.en3 (Outstation.step env s inp).1.en3))) ∧
    (EnOf s = (false, false, false) → (∃ dl, s.unsol = .ready dl) → NotUW s.mode →
      (∀ pf, StepFrag env s inp pf → ¬ IsFunc pf 20) →
      EnOf (Outstation.step env s inp).1 = (false, false, false) ∧
      (∃ dl, (Outstation.step env s inp).1.unsol = .ready dl) ∧ NotUW (Outstation.step env s inp).1.mode ∧
      ∀ o ∈ (Outstation.step env s inp).2, OOut.kind o ≠ .unsolWait) :=
  @Dnp3.Proofs.C14.data_only_enabled env s inp


/-! ## Whole-trace theorems -/

/-- **the unsolicited-reporting monitor `uMon` accepts every trace** (`unsol_trace_monitored`): for every
    configuration, environment and input list, running `uMon cfg.retries` over ALL outputs of the run from
    `Outstation.start cfg evMax` (`traceOuts`: those of the start-up pass, then those of every step, in order)
    never rejects, and ends with nothing owed (no `unsolWait` callback / retransmission outstanding).  What the
    monitor checks is spelled out at `uMon`; `null_until_confirmed_trace`, `unsol_tx_accounted` and
    `retries_bounded_trace` restate its verdict without the monitor. -/
theorem unsol_trace_monitored (cfg : OCfg) (evMax : Nat) (env : OEnv) (ins : List OInput) :
    ∃ m', runMon (uMon cfg.retries) {} (traceOuts cfg evMax env ins) = some m' ∧ m'.expect = .nothing :=
  @Dnp3.Proofs.C14Trace.unsol_trace_monitored cfg evMax env ins

/-- **C14.1 as a trace theorem** (`null_until_confirmed_trace`): in any run from `Outstation.start cfg evMax`
    (any configuration — with `cfg.unsolicited = false` nothing unsolicited is ever sent —, any environment, any
    inputs), every transmitted unsolicited response (function octet 0x82) that occurs before the first
    `unsolConfirmed` callback has exactly 4 octets: it is a NULL response. -/
theorem null_until_confirmed_trace (cfg : OCfg) (evMax : Nat) (env : OEnv) (ins : List OInput)
    (pre post : List OOut) (d : Nat) (b : List Nat)
    (hsplit : traceOuts cfg evMax env ins = pre ++ .tx d b :: post)
    (hpre : ∀ q, OOut.cb (.unsolConfirmed q) ∉ pre) (hf : b.getD 1 0 = 0x82) : b.length = 4 :=
  @Dnp3.Proofs.C14Trace.null_until_confirmed_trace cfg evMax env ins pre post d b hsplit hpre hf

/-- **every unsolicited transmission is accounted for** (`unsol_tx_accounted`): in any run, a transmitted
    fragment with function octet 0x82 is either the first transmission of a series — the very next output is its
    `unsolWait seq` callback — or a retry — the output just before it is `unsolTimeout q true`. -/
theorem unsol_tx_accounted (cfg : OCfg) (evMax : Nat) (env : OEnv) (ins : List OInput)
    (pre post : List OOut) (d : Nat) (b : List Nat)
    (hsplit : traceOuts cfg evMax env ins = pre ++ .tx d b :: post) (hf : b.getD 1 0 = 0x82) :
    (∃ seq post', post = .cb (.unsolWait seq) :: post') ∨
    (∃ q pre', pre = pre' ++ [.cb (.unsolTimeout q true)]) :=
  @Dnp3.Proofs.C14Trace.unsol_tx_accounted cfg evMax env ins pre post d b hsplit hf

/-- **C14.4 as a trace theorem** (`retries_bounded_trace`): in any run from `Outstation.start cfg evMax`, take
    any unsolicited series — its first transmission `tx d b0` immediately followed by the callback
    `unsolWait seq` — and any stretch `mid` of the outputs after it that contains no series mark (no further
    `unsolWait`, no `unsolConfirmed`, no `unsolTimeout _ false`; a disconnect or a DISABLE_UNSOLICITED may lie in
    it).  Then
    1. every `unsolTimeout q true` ("timeout, retrying") in `mid` is for that series (`q = seq`) and the very
       next output is a transmission to the same destination of exactly the octets `b0` of the first
       transmission — whatever happened to the IIN bits in between;
    2. with `cfg.retries = some n` there are at most `n` of them (so at most `1 + n` transmissions of the
       fragment); with `cfg.retries = none` there is no bound, and 1 still holds;
    3. every other fragment with function octet 0x82 in `mid` (not in last position) is such a retransmission:
       destination `d`, octets `b0`. -/
theorem retries_bounded_trace (cfg : OCfg) (evMax : Nat) (env : OEnv) (ins : List OInput)
    (pre mid rest : List OOut) (d : Nat) (b0 : List Nat) (seq : Nat)
    (hsplit : traceOuts cfg evMax env ins = pre ++ [.tx d b0, .cb (.unsolWait seq)] ++ mid ++ rest)
    (hmid : ∀ o ∈ mid, isSeriesMark o = false) :
    (∀ m1 q m2, mid = m1 ++ .cb (.unsolTimeout q true) :: m2 → q = seq ∧ ∃ t, m2 ++ rest = .tx d b0 :: t) ∧
    (∀ n, cfg.retries = some n → (mid.filter isRetryCb).length ≤ n) ∧
    (∀ m1 d' b' m2, mid = m1 ++ .tx d' b' :: m2 → b'.getD 1 0 = 0x82 → m2 ≠ [] → d' = d ∧ b' = b0) :=
  @Dnp3.Proofs.C14Trace.retries_bounded_trace cfg evMax env ins pre mid rest d b0 seq hsplit hmid

/-- **a retry is the first transmission, whatever the IIN history** (regression example for the D14-style re-OR,
    which is NOT present on this path): both retries carry IIN1 = 128 like the first transmission although the
    current IIN1 is 129 (broadcast received), as the solicited reply between them shows -/
theorem retry_identical_iin_history_example :
    (Outstation.run {} (Outstation.start exCfg 10).1 exInsIin).2.map txFrags =
      [[], [], [(1, [193, 129, 128, 0])], [(1, exData)], [], [(1, exData)],
       [(1, [195, 129, 129, 0, 52, 2, 7, 1, 0, 0])], [(1, exData)]] :=
  @Dnp3.Proofs.C14Trace.retry_identical_iin_history_example 


/-- **C14.3 for the solicited confirm wait** (`one_outstanding_sol`): a step that begins in the solicited confirm
    wait (`mode = solWait sr dl c`; `SolInv s`: every stored response is a solicited response, which holds in
    every reachable state, `solInv_reachable`) — whatever the input —
    * either emits nothing that opens another solicited confirm wait (`solWait`) and nothing unsolicited (no
      fragment with function octet 0x82, no `unsolWait` / `unsolTimeout` / `unsolConfirmed` callback), and the task
      still is in a solicited confirm wait with the same continuation (a repeated READ was echoed, a wrong or
      unexpected confirm noted, nothing happened) or has died;
    * or the input is a disconnect;
    * or the outputs split as `pre ++ post` with `pre` as quiet as that and containing the reason the wait
      ended: `solConfirmed` (the fragment was confirmed), `solTimeout`, or `solNewRequest`. -/
theorem one_outstanding_sol (env : OEnv) (s : OState) (inp : OInput) (sr : Series) (dl : Nat) (c : SolCont)
    (hm : s.mode = .solWait sr dl c) (hi : SolInv s) :
    ((∀ o ∈ (Outstation.step env s inp).2, solQuietOut o = true) ∧
      ((∃ sr' dl', (Outstation.step env s inp).1.mode = .solWait sr' dl' c) ∨
        (Outstation.step env s inp).1.mode = .dead)) ∨
    inp = .cut ∨
    (∃ pre post, (Outstation.step env s inp).2 = pre ++ post ∧ (∀ o ∈ pre, solQuietOut o = true) ∧
      ∃ o ∈ pre, isSolEnd o = true) :=
  @Dnp3.Proofs.C14Trace.one_outstanding_sol env s inp sr dl c hm hi

/-- **C14.3 for the solicited confirm wait, over runs** (`one_outstanding_sol_run`): in any run from
    `Outstation.start cfg evMax`, once the task is in a solicited confirm wait (after the inputs `ins1`), then for
    any further inputs `ins2` without a disconnect, as long as no output reports the end of the wait (no
    `solConfirmed`, `solTimeout`, `solNewRequest` callback), NO output opens another solicited confirm wait
    (`solWait`) or belongs to unsolicited reporting (fragment with function octet 0x82, `unsolWait` /
    `unsolTimeout` / `unsolConfirmed`), and the task still is in a solicited confirm wait with the same
    continuation (or has died). -/
theorem one_outstanding_sol_run (cfg : OCfg) (evMax : Nat) (env : OEnv) (ins1 ins2 : List OInput)
    (sr : Series) (dl : Nat) (c : SolCont)
    (hm : (Outstation.run env (Outstation.start cfg evMax).1 ins1).1.mode = .solWait sr dl c)
    (hcut : ∀ i ∈ ins2, i ≠ .cut)
    (hend : ∀ l ∈ (Outstation.run env (Outstation.run env (Outstation.start cfg evMax).1 ins1).1 ins2).2,
      ∀ o ∈ l, isSolEnd o = false) :
    (∀ l ∈ (Outstation.run env (Outstation.run env (Outstation.start cfg evMax).1 ins1).1 ins2).2,
      ∀ o ∈ l, solQuietOut o = true) ∧
    ((∃ sr' dl', (Outstation.run env (Outstation.run env (Outstation.start cfg evMax).1 ins1).1 ins2).1.mode =
        .solWait sr' dl' c) ∨
      (Outstation.run env (Outstation.run env (Outstation.start cfg evMax).1 ins1).1 ins2).1.mode = .dead) :=
  @Dnp3.Proofs.C14Trace.one_outstanding_sol_run cfg evMax env ins1 ins2 sr dl c hm hcut hend


/-- `SolInv` holds in every state reachable from construction -/
theorem solInv_reachable (cfg : OCfg) (evMax : Nat) (env : OEnv) (s : OState)
    (h : Outstation.Reachable cfg evMax env s) : SolInv s :=
  @Dnp3.Proofs.C14Trace.solInv_reachable cfg evMax env s h


end Dnp3.Props.C14
