import Dnp3.Model.OutstationTrace
/-!
# C14 — Unsolicited reporting obeys the start-up, enable, retry and deferral rules
-/
namespace Dnp3.Props.C14
open Dnp3

/-- with unsolicited support disabled nothing unsolicited is ever started -/
theorem disabled_never_starts (a : Acc) (h : a.1.cfg.unsolicited = false) :
    checkUnsolicited a = some (.inr (a, .untilEvent)) := by
  unfold checkUnsolicited
  simp [h]

/-- the tail of `check_unsolicited`: a null series that is not confirmed leaves the start-up
    state unchanged (NullRequired), a confirmed one enters Ready; a data series that ends without
    confirmation arms the retry delay -/
theorem after_series (a : Acc) :
    (afterUnsolSeries a true false).1.1.unsol = .nullRequired ∧
    (afterUnsolSeries a true true).1.1.unsol = .ready none ∧
    (afterUnsolSeries a false false).1.1.unsol = .ready (some (a.1.now + a.1.cfg.rdelay)) := by
  unfold afterUnsolSeries
  simp

end Dnp3.Props.C14
