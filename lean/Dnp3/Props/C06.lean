import Dnp3.Gen.Link
import Dnp3.Gen.CrcTable
import Dnp3.Model.LinkReader
import Dnp3.Proofs.LinkParser
import Dnp3.Proofs.LinkReader
import Dnp3.Proofs.CrcHd
/-!
# C06 — Only intact link frames are delivered, and every frame sent is recovered

Property theorems only (helper lemmas live in `Dnp3/Proofs`).
-/
namespace Dnp3.Props.C06
open Dnp3

/-- the constants the hand-written link model transcribes are the ones in the source -/
theorem link_constants_as_modelled :
    Gen.Link.start1 = 0x05 ∧ Gen.Link.start2 = 0x64 ∧ Gen.Link.maxFramePayloadLength = 250 ∧
    Gen.Link.linkHeaderLength = 10 ∧ Gen.Link.maxLinkFrameLength = 292 ∧
    Gen.Link.maxAppBytesPerFrame = 249 ∧ Gen.Link.minHeaderLengthValue = 5 ∧
    Gen.Link.maxBlockSize = 16 ∧ Gen.Link.crcLength = 2 ∧ Gen.Link.maxBlockSizeWithCrc = 18 ∧
    Gen.crcFnShapeOk = true := by decide

/-- every entry of the table in `crc.rs` is the bit-serial CRC-16/DNP of its index -/
theorem crc_table_is_dnp : ∀ i : Fin 256, Gen.crcTable.getD i.val 0 = bitStep8 i.val := by
  decide +kernel

/-- `CRC_OF_0564` is the CRC register after the two start octets -/
theorem crc_of_0564 : Gen.crcOf0564 = crcIncS 0 [0x05, 0x64] := by decide +kernel

/-- **soundness**: whatever the parser delivers from a frame-start state is exactly the image of a
    well-formed frame (start octets, length, header CRC, every block CRC), and the delivered
    control octet, addresses and payload are the ones in those octets -/
theorem parser_sound (bs rest : List Nat) (st' : PState) (h : LHeader) (p : List Nat)
    (hb : ∀ b ∈ bs, b < 256) (hr : parseImpl .sync1 bs = (st', rest, .ok (some (h, p)))) :
    bs = encodeFrame h p ++ rest ∧ p.length ≤ 250 ∧ st' = .sync1 ∧
      h.ctrl < 256 ∧ h.dst < 65536 ∧ h.src < 65536 :=
  Dnp3.parser_sound bs rest st' h p hb hr

/-- soundness through `Parser::parse` in Close mode -/
theorem parser_sound_close (bs rest : List Nat) (st' : PState) (h : LHeader) (p : List Nat)
    (hb : ∀ b ∈ bs, b < 256) (hr : parse .close .sync1 bs = (st', rest, .ok (some (h, p)))) :
    bs = encodeFrame h p ++ rest ∧ p.length ≤ 250 ∧ st' = .sync1 ∧
      h.ctrl < 256 ∧ h.dst < 65536 ∧ h.src < 65536 :=
  Dnp3.parse_close_sound bs rest st' h p hb hr

/-- **round trip, one call**: every frame the library formats is parsed back identically,
    leaving exactly the octets that follow it -/
theorem parse_encode (h : LHeader) (p rest : List Nat) (hc : h.ctrl < 256) (hd : h.dst < 65536)
    (hs : h.src < 65536) (hp : p.length ≤ 250) :
    parseImpl .sync1 (encodeFrame h p ++ rest) = (.sync1, rest, .ok (some (h, p))) :=
  Dnp3.parse_encode h p rest hc hd hs hp

/-- **chunking-independent round trip** (both error modes, every legal buffer size): any stream
    of formatted frames, split into reads in any way whatsoever (one octet at a time, reads
    straddling the buffer shift, empty reads), is delivered as exactly those frames, in order,
    with no error -/
theorem stream_roundtrip (m : ErrMode) (frag : Nat) (frames : List (LHeader × List Nat))
    (hv : ∀ f ∈ frames, ValidFrame f) (chunks : List (List Nat))
    (hcat : chunks.flatten = frames.flatMap (fun f => encodeFrame f.1 f.2)) :
    ((Reader.new m .stream frag).feedAll chunks).2 = frames.map (fun f => LEvent.frame f.1 f.2) := by
  obtain ⟨r', h, _⟩ := Dnp3.stream_roundtrip m frag frames hv chunks hcat
  rw [h]

/-- a frame or error already produced is not changed by octets that arrive later, and a parse
    that needs more octets resumes exactly where it stopped -/
theorem parse_incremental (st st' : PState) (bs rest more : List Nat)
    (h : parseImpl st bs = (st', rest, .ok none)) :
    parseImpl st (bs ++ more) = parseImpl st' (rest ++ more) :=
  Dnp3.parseImpl_more st st' bs rest more h

/-- the reader never issues a zero-length read (which the physical layer wrapper turns into
    `UnexpectedEof`): after a parse that needs more data at most 281 octets are pending -/
theorem reader_never_zero_read (r : Reader) (avail rest : List Nat) (st' : PState)
    (hcap : 293 ≤ r.cap) (hbe : r.begin_ ≤ r.end_) (hec : r.end_ ≤ r.cap)
    (hpl : r.pending.length = r.end_ - r.begin_) (hb : ∀ b ∈ r.pending, b < 256)
    (hst : boundedState r.pst) (hrl : rest.length ≤ r.pending.length)
    (hparse : parse r.emode r.pst r.pending = (st', rest, .ok none)) (ha : avail ≠ []) :
    rest.length ≤ 281 ∧
    ({ r with pst := st', pending := rest,
              begin_ := r.begin_ + (r.pending.length - rest.length) } : Reader).readMore avail ≠ none :=
  Dnp3.reader_never_zero_read r avail rest st' hcap hbe hec hpl hb hst hrl hparse ha

/-- every legal fragment size gives a read buffer that can hold a whole frame plus one octet -/
theorem read_buffer_holds_a_frame (frag : Nat) : 293 ≤ readBufferSize frag :=
  Dnp3.readBufferSize_ge frag

/-- the table-driven CRC of `crc.rs` is the bit-serial CRC-16/DNP on every octet string -/
theorem crc_table_computes_dnp (acc : Nat) (bs : List Nat) (hb : ∀ b ∈ bs, b < 256) :
    crcIncT acc bs = crcIncS acc bs :=
  Dnp3.Proofs.Crc.crcIncT_eq_serial acc bs hb

/-- **error detection, data blocks**: a block of up to 16 data octets followed by its CRC, hit by
    ANY error pattern of weight 1, 2 or 3 (anywhere in data or CRC), fails the parser's block
    test (Hamming distance ≥ 4 of the code defined by the table in `crc.rs`) -/
theorem crc_detects_le3 (d : List Nat) (hd : d.length ≤ 16) (hb : ∀ b ∈ d, b < 256)
    (e : List Nat) (he : e.length = d.length + 2) (heb : ∀ b ∈ e, b < 256)
    (hw : 1 ≤ Dnp3.Proofs.Crc.weight e ∧ Dnp3.Proofs.Crc.weight e ≤ 3) :
    ¬ Dnp3.Proofs.Crc.blockValid (List.zipWith (· ^^^ ·) (Dnp3.Proofs.Crc.blockImage d) e) :=
  Dnp3.Proofs.Crc.crc_detects_le3 d hd hb e he heb hw

/-- … stated on the parser's own function: `checkBody` returns `BadBodyCrc` -/
theorem body_block_rejected_le3 (fuel : Nat) (d : List Nat) (hd1 : 1 ≤ d.length) (hd : d.length ≤ 16)
    (hb : ∀ b ∈ d, b < 256) (e : List Nat) (he : e.length = d.length + 2) (heb : ∀ b ∈ e, b < 256)
    (hw : 1 ≤ Dnp3.Proofs.Crc.weight e ∧ Dnp3.Proofs.Crc.weight e ≤ 3) :
    checkBody (fuel + 1) (List.zipWith (· ^^^ ·) (Dnp3.Proofs.Crc.blockImage d) e) = .error .bodyCrc :=
  Dnp3.Proofs.Crc.checkBody_rejects_le3 fuel d hd1 hd hb e he heb hw

/-- **error detection, header block**: the ten header octets `05 64 LEN CTRL DST SRC CRC` hit by
    any error pattern of weight 1..3 make the parser return an error (bad start octet, bad
    length or bad header CRC) — never a header -/
theorem header_rejected_le3 (hf : List Nat) (hlen : hf.length = 6) (hb : ∀ b ∈ hf, b < 256)
    (e : List Nat) (he : e.length = 10) (heb : ∀ b ∈ e, b < 256)
    (hw : 1 ≤ Dnp3.Proofs.Crc.weight e ∧ Dnp3.Proofs.Crc.weight e ≤ 3) (rest : List Nat) :
    ∃ err, (parseSync1 (List.zipWith (· ^^^ ·) ([0x05, 0x64] ++ hf ++ le16 (calcCrc0564 hf)) e
      ++ rest)).2.2 = .error err :=
  Dnp3.Proofs.Crc.header_parse_rejects_le3 hf hlen hb e he heb hw rest

/-- known finding D10 (witness, decided by evaluation of the model): in discard mode `05 64`
    delivered in an earlier read than a valid frame makes the frame disappear, while the same
    octets in one read are recovered -/
theorem discard_resync_counterexample :
    let frame := encodeFrame ⟨0xC4, 1024, 1⟩ [0xC0, 0xC0, 0x01, 0x02]
    ((Reader.new .discard .stream 2048).feedAll [[0x05, 0x64], frame]).2 = [] ∧
    ((Reader.new .discard .stream 2048).feedAll [[0x05, 0x64] ++ frame]).2 =
      [.frame ⟨0xC4, 1024, 1⟩ [0xC0, 0xC0, 0x01, 0x02]] := by
  decide +kernel

example : ValidFrame (⟨0xC4, 1024, 1⟩, [0xC0, 0xC0, 0x01, 0x02]) := by decide

end Dnp3.Props.C06
