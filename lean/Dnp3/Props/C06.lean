import Dnp3.Gen.Link
import Dnp3.Gen.CrcTable
import Dnp3.Model.LinkReader
/-!
# C06 — Only intact link frames are delivered, and every frame sent is recovered

Property theorems only (helper lemmas live in `Dnp3/Proofs`).
-/
namespace Dnp3.Props.C06
open Dnp3

/-- the constants the hand-written link model transcribes are the ones in the source -/
theorem link_constants_as_modelled :
    Gen.Link.start1 = 0x05 ∧ Gen.Link.start2 = 0x64 ∧ Gen.Link.maxFramePayloadLength = 250 ∧
    Gen.Link.linkHeaderLength = 10 ∧ Gen.Link.maxLinkFrameLength = 292 ∧
    Gen.Link.maxAppBytesPerFrame = 249 ∧ Gen.Link.minHeaderLengthValue = 5 ∧
    Gen.Link.maxBlockSize = 16 ∧ Gen.Link.crcLength = 2 ∧ Gen.Link.maxBlockSizeWithCrc = 18 ∧
    Gen.crcFnShapeOk = true := by decide

/-- every entry of the table in `crc.rs` is the bit-serial CRC-16/DNP of its index -/
theorem crc_table_is_dnp : ∀ i : Fin 256, Gen.crcTable.getD i.val 0 = bitStep8 i.val := by
  decide +kernel

/-- `CRC_OF_0564` is the CRC register after the two start octets -/
theorem crc_of_0564 : Gen.crcOf0564 = crcIncS 0 [0x05, 0x64] := by decide +kernel

end Dnp3.Props.C06
