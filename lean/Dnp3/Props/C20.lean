import Lean
import Dnp3.Model.Ffi
/-!
# C20 — The C/.NET/Java binding layer maps every value to its namesake, losslessly

The quantifier of the property ("every variant of every enumeration and every conversion impl in the binding
crate") is the finite table `Dnp3.Gen.Ffi.arms` / `fields`, regenerated from `ffi/dnp3-ffi/src/**.rs` on every
run by `tools/gen_ffi.py` (every arm of every conversion `match`, every field assignment of every struct
conversion).  Exhaustiveness of each `match` and completeness of each struct literal are rustc's (trusted base);
a wildcard arm or a `..base` would appear in the table (`lvar = "_"`, kind `rest`) and fail the theorems below.

All theorems are closed `Bool` computations over the whole table, checked by the kernel (`decide +kernel`).
The reviewed exception lists are *here*, one comment per entry; a mapping that is not a namesake and not listed
fails `arms_namesake…`, a collision that is not listed fails `arms_injective`, a crossed field fails
`struct_fields_namesake…`.
-/
namespace Dnp3.Props.C20
open Dnp3.Gen.Ffi Dnp3.Ffi

open Lean in
/-- `c!"Abc"` is the list of character codes `[65, 98, 99]` (notation only: the reviewed lists below are written as
    text, the kernel sees numbers — `String` operations are far too slow in the kernel) -/
macro "c!" s:str : term => do
  let cs := s.getString.toList.toArray.map (fun c => Syntax.mkNumLit (toString c.toNat))
  `(([$cs,*] : List Nat))

example : c!"Ab_9" = [65, 98, 95, 57] := rfl
example : String.ofList ((c!"TaskError").map Char.ofNat) = "TaskError" := by decide

/-- reviewed variant renames: (source type, source variant, target variant) -/
def renames : List Rename := [
  -- time qualities: the ffi enum names carry a `Time` suffix; `Option<Time>::None` is the invalid quality
  ⟨c!"Time", c!"Synchronized", c!"SynchronizedTime"⟩,
  ⟨c!"Time", c!"Unsynchronized", c!"UnsynchronizedTime"⟩,
  ⟨c!"Option", c!"None", c!"InvalidTime"⟩,
  ⟨c!"TimeQuality", c!"SynchronizedTime", c!"Synchronized"⟩,
  ⟨c!"TimeQuality", c!"UnsynchronizedTime", c!"Unsynchronized"⟩,
  ⟨c!"TimeQuality", c!"InvalidTime", c!"None"⟩,
  -- restart delay: c!"not supported" is the absent delay on the native side (both directions)
  ⟨c!"RestartDelayType", c!"NotSupported", c!"None"⟩,
  ⟨c!"Option", c!"None", c!"NotSupported"⟩,
  -- runtime errors are folded into the flat `ParamError` with a `Runtime` prefix
  ⟨c!"RuntimeError", c!"CannotBlockWithinAsync", c!"RuntimeCannotBlockWithinAsync"⟩,
  ⟨c!"RuntimeError", c!"FailedToCreateRuntime", c!"RuntimeCreationFailure"⟩,
  -- task errors: the ffi error enums have three coarse buckets (see `manyToOne`) and older names
  ⟨c!"TaskError", c!"Link", c!"NoConnection"⟩,
  ⟨c!"TaskError", c!"Transport", c!"NoConnection"⟩,
  ⟨c!"TaskError", c!"Disabled", c!"NoConnection"⟩,
  ⟨c!"TaskError", c!"MalformedResponse", c!"BadResponse"⟩,
  ⟨c!"TaskError", c!"UnexpectedResponseHeaders", c!"BadResponse"⟩,
  ⟨c!"TaskError", c!"NonFinWithoutCon", c!"BadResponse"⟩,
  ⟨c!"TaskError", c!"NeverReceivedFir", c!"BadResponse"⟩,
  ⟨c!"TaskError", c!"UnexpectedFir", c!"BadResponse"⟩,
  ⟨c!"TaskError", c!"MultiFragmentResponse", c!"BadResponse"⟩,
  ⟨c!"TaskError", c!"NoSuchAssociation", c!"AssociationRemoved"⟩,
  -- accepted only where the target enum has no `RejectedByIin2` of its own: see `renames_only_without_namesake`
  ⟨c!"TaskError", c!"RejectedByIin2", c!"IinError"⟩,
  -- command response mismatches share one ffi value (see `manyToOne`)
  ⟨c!"CommandResponseError", c!"HeaderCountMismatch", c!"HeaderMismatch"⟩,
  ⟨c!"CommandResponseError", c!"HeaderTypeMismatch", c!"HeaderMismatch"⟩,
  ⟨c!"CommandResponseError", c!"ObjectCountMismatch", c!"HeaderMismatch"⟩,
  ⟨c!"CommandResponseError", c!"ObjectValueMismatch", c!"HeaderMismatch"⟩,
  -- errors folded into the flat `ParamError`, qualified by their origin
  ⟨c!"AssociationError", c!"Shutdown", c!"MasterAlreadyShutdown"⟩,
  ⟨c!"AssociationError", c!"DuplicateAddress", c!"AssociationDuplicateAddress"⟩,
  ⟨c!"PollError", c!"Shutdown", c!"MasterAlreadyShutdown"⟩,
  ⟨c!"PollError", c!"NoSuchAssociation", c!"AssociationDoesNotExist"⟩,
  ⟨c!"TlsError", c!"Other", c!"OtherTlsError"⟩,
  -- file type: the ffi enum calls a plain file `Simple`
  ⟨c!"FileType", c!"File", c!"Simple"⟩,
  -- TLS certificate mode selects a constructor function: authority based = full PKI
  ⟨c!"CertificateMode", c!"AuthorityBased", c!"full_pki"⟩,
  -- control codes: the ffi enums have no `Unknown(u8)`; an undefined raw value is presented as NUL (LOSSY, see report)
  ⟨c!"TripCloseCode", c!"Unknown", c!"Nul"⟩,
  ⟨c!"OpType", c!"Unknown", c!"Nul"⟩,
  -- outstation features: bool on the ffi side, two-valued enum natively
  ⟨c!"bool", c!"true", c!"Enabled"⟩,
  ⟨c!"bool", c!"false", c!"Disabled"⟩
]

/-- reviewed type pairings (source type ↦ target type, last path segments) -/
def typeRenames : List TypeRename := [
  ⟨c!"AnalogCommandValue", c!"AnalogCommandType"⟩,   -- value-carrying enum ↦ its discriminant
  ⟨c!"Time", c!"TimeQuality"⟩, ⟨c!"Option", c!"TimeQuality"⟩, ⟨c!"TimeQuality", c!"Time"⟩, ⟨c!"TimeQuality", c!"Option"⟩,
  ⟨c!"RuntimeError", c!"ParamError"⟩, ⟨c!"AssociationError", c!"ParamError"⟩, ⟨c!"PollError", c!"ParamError"⟩, ⟨c!"TlsError", c!"ParamError"⟩,
  -- `TaskError` is embedded in every per-operation error enum of the bindings
  ⟨c!"TaskError", c!"CommandError"⟩, ⟨c!"TaskError", c!"TimeSyncError"⟩, ⟨c!"TaskError", c!"RestartError"⟩, ⟨c!"TaskError", c!"ReadError"⟩,
  ⟨c!"TaskError", c!"LinkStatusError"⟩, ⟨c!"TaskError", c!"EmptyResponseError"⟩, ⟨c!"TaskError", c!"FileError"⟩,
  ⟨c!"CommandResponseError", c!"CommandError"⟩, ⟨c!"WriteError", c!"EmptyResponseError"⟩,
  ⟨c!"CertificateMode", c!"TlsClientConfig"⟩, ⟨c!"CertificateMode", c!"TlsServerConfig"⟩,
  ⟨c!"AutoTimeSync", c!"Option"⟩, ⟨c!"AutoTimeSync", c!"TimeSyncProcedure"⟩, ⟨c!"TimeSyncMode", c!"TimeSyncProcedure"⟩,
  ⟨c!"RestartDelayType", c!"Option"⟩, ⟨c!"RestartDelayType", c!"RestartDelay"⟩, ⟨c!"RestartDelay", c!"RestartDelayType"⟩, ⟨c!"Option", c!"RestartDelayType"⟩,
  ⟨c!"WriteTimeResult", c!"Result"⟩, ⟨c!"WriteTimeResult", c!"RequestError"⟩, ⟨c!"FreezeResult", c!"Result"⟩, ⟨c!"FreezeResult", c!"RequestError"⟩,
  ⟨c!"UpdateInfo", c!"UpdateResult"⟩, ⟨c!"EventClass", c!"Option"⟩, ⟨c!"bool", c!"Feature"⟩
]

/-- deliberate many-to-one collapses: (source type, target variant) -/
def manyToOne : List ManyToOne := [
  ⟨c!"TaskError", c!"NoConnection"⟩,            -- Link / Transport / Disabled / NoConnection: c!"no usable connection"
  ⟨c!"TaskError", c!"BadResponse"⟩,             -- six kinds of malformed / unexpected response
  ⟨c!"CommandResponseError", c!"HeaderMismatch"⟩, -- four kinds of echo mismatch
  ⟨c!"TripCloseCode", c!"Nul"⟩,                 -- Unknown(u8) is presented as Nul (LOSSY, see report)
  ⟨c!"OpType", c!"Nul"⟩                         -- Unknown(u8) is presented as Nul (LOSSY, see report)
]

/-- reviewed field renames: (target field, source accessor) -/
def fieldRenames : List FieldRename := [
  ⟨c!"s_var", c!"static_variation"⟩, ⟨c!"e_var", c!"event_variation"⟩,   -- point configs: native abbreviations
  ⟨c!"max_double_binary", c!"max_double_bit_binary"⟩, ⟨c!"max_double_bit_binary", c!"max_double_binary"⟩,
  ⟨c!"index", c!"idx"⟩,                    -- measurement constructors `ffi::X::new(idx, value)`
  ⟨c!"created", c!"id"⟩,                   -- `UpdateInfo::Created(id)`
  ⟨c!"func", c!"function"⟩,                -- response header
  ⟨c!"control_field", c!"control"⟩,        -- request header
  ⟨c!"value", c!"raw_value"⟩,              -- ffi::Timestamp.value from `Timestamp::raw_value()`
  ⟨c!"value", c!"time"⟩, ⟨c!"quality", c!"time"⟩,  -- ffi::Timestamp from `Option<Time>`: both fields are functions of `time` (arms table)
  ⟨c!"value", c!"it"⟩,                     -- ffi::OctetString.value is the byte iterator `it`
  ⟨c!"file_name", c!"current_name"⟩, ⟨c!"file_name", c!"name"⟩,  -- C string copies of `FileInfo::name`
  ⟨c!"address", c!"raw_value"⟩,            -- AssociationId.address from `EndpointAddress::raw_value()`
  ⟨c!"association_id", c!"address"⟩,       -- PollId.association_id from the association's address
  ⟨c!"master_address", c!"address"⟩        -- MasterChannelConfig.master_address from the validated `address`
]

/-- reviewed constant fields: (struct type, field) that an arm sets to a constant because the source variant has no such datum -/
def constFields : List (Name × Name) := [
  (c!"UpdateInfoFields", c!"created"), (c!"UpdateInfoFields", c!"discarded"),  -- NoPoint / NoEvent / Created carry fewer ids
  (c!"RestartDelayFields", c!"value"),                                       -- NotSupported has no delay
  (c!"Timestamp", c!"quality")                                              -- g50/g51 absolute time is synchronized by definition
]

/-! ## known finding D22 — `EmptyResponseError`: `IinError` and `RejectedByIin2` are exchanged
see `Dnp3.Ffi.isD22` (Model/Ffi.lean). -/

/-! ## Theorems -/

/-- the table is not empty and its declared sizes are its sizes -/
theorem table_wellformed : nArms = armsN.length ∧ nFields = fieldsN.length ∧ 0 < nArms ∧ 0 < nFields ∧
    armsN.all (fun a => a.impl < implNames.length) = true ∧ fieldsN.all (fun f => f.conv < convNames.length) = true := by
  decide +kernel

/-
Full statement (FALSE on the unchanged tree because of D22, see `arms_namesake_counterexample`):
  theorem arms_namesake : armsN.all (ArmNamesake renames) = true
-/
/-- every arm of every conversion maps a variant to its namesake, or is a reviewed rename — except the two D22 arms -/
theorem arms_namesake_partial : (armsN.filter (fun a => !isD22 a)).all (ArmNamesake renames) = true := by
  decide +kernel

/-- D22 is in the table (two arms), and `WriteError::IinError(_) => ffi::EmptyResponseError::RejectedByIin2` is neither a
    namesake nor covered by any reviewed rename -/
theorem arms_namesake_counterexample :
    (armsN.filter isD22).length = 2 ∧ (armsN.filter isD22).all (ArmNamesake renames) = false := by
  decide +kernel

/-
Full statement (FALSE on the unchanged tree because of D22):
  theorem renames_only_without_namesake : armsN.all (fun a => !namesakeAvailable armsN a) = true
-/
/-- no arm is renamed although its target enumeration has a like-named variant — except the two D22 arms -/
theorem renames_only_without_namesake_partial :
    (armsN.filter (fun a => !isD22 a)).all (fun a => !namesakeAvailable armsN a) = true := by
  decide +kernel

/-- both D22 arms are renamed although the namesake exists in `ffi::EmptyResponseError` -/
theorem renames_only_without_namesake_counterexample :
    (armsN.filter isD22).all (namesakeAvailable armsN) = true := by
  decide +kernel

/-- the enumerations related by each arm are namesakes or a reviewed pairing -/
theorem arm_types_namesake : armsN.all (ArmTypesNamesake typeRenames) = true := by
  decide +kernel

/-- within one conversion distinct source variants go to distinct targets, except the deliberate collapses -/
theorem arms_injective : ImplInjective manyToOne armsN = true := by
  decide +kernel

/-- every struct conversion assigns field `f` from accessor `f` (no crossed fields, no `..base`, reviewed constants
    only) and no two target fields read the same source.
    (Full strength since the repair of D21 — `From<dnp3::app::Permissions> for ffi::Permissions` used to
    assign `group ← world`, `owner ← group`; see known_findings.jsonl, entry `fixed: … D21`.) -/
theorem struct_fields_namesake :
    StructFieldsNamesake fieldRenames constFields fieldsN = true := by
  decide +kernel

/-- the crossed rows of D21 are gone from the table read from the current source -/
theorem d21_absent : d21Present = false := by
  decide +kernel

end Dnp3.Props.C20
