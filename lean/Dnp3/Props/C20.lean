import Dnp3.Props.C20Lists
/-!
# C20 — The C/.NET/Java binding layer maps every value to its namesake, losslessly

The quantifier of the property ("every variant of every enumeration and every conversion impl in the binding
crate") is the finite table `Dnp3.Gen.Ffi.arms` / `fields`, regenerated from `ffi/dnp3-ffi/src/**.rs` on every
run by `tools/gen_ffi.py` (every arm of every conversion `match`, every field assignment of every struct
conversion).  Exhaustiveness of each `match` and completeness of each struct literal are rustc's (trusted base);
a wildcard arm or a `..base` would appear in the table (`lvar = "_"`, kind `rest`) and fail the theorems below.

All theorems are closed `Bool` computations over the whole table, checked by the kernel (`decide +kernel`).
The reviewed exception lists are *here*, one comment per entry; a mapping that is not a namesake and not listed
fails `arms_namesake…`, a collision that is not listed fails `arms_injective`, a crossed field fails
`struct_fields_namesake…`.
-/
namespace Dnp3.Props.C20
open Dnp3.Gen.Ffi Dnp3.Ffi

/-! ## known finding D22 — `EmptyResponseError`: `IinError` and `RejectedByIin2` are exchanged
see `Dnp3.Ffi.isD22` (Model/Ffi.lean). -/

/-! ## Theorems -/

/-- the table is not empty and its declared sizes are its sizes -/
theorem table_wellformed : nArms = armsN.length ∧ nFields = fieldsN.length ∧ 0 < nArms ∧ 0 < nFields ∧
    armsN.all (fun a => a.impl < implNames.length) = true ∧ fieldsN.all (fun f => f.conv < convNames.length) = true := by
  decide +kernel

/-
Full statement (FALSE on the unchanged tree because of D22, see `arms_namesake_counterexample`):
  theorem arms_namesake : armsN.all (ArmNamesake renames) = true
-/
/-- every arm of every conversion maps a variant to its namesake, or is a reviewed rename — except the two D22 arms -/
theorem arms_namesake_partial : (armsN.filter (fun a => !isD22 a)).all (ArmNamesake renames) = true := by
  decide +kernel

/-- D22 is in the table (two arms), and `WriteError::IinError(_) => ffi::EmptyResponseError::RejectedByIin2` is neither a
    namesake nor covered by any reviewed rename -/
theorem arms_namesake_counterexample :
    (armsN.filter isD22).length = 2 ∧ (armsN.filter isD22).all (ArmNamesake renames) = false := by
  decide +kernel

/-
Full statement (FALSE on the unchanged tree because of D22):
  theorem renames_only_without_namesake : armsN.all (fun a => !namesakeAvailable armsN a) = true
-/
/-- no arm is renamed although its target enumeration has a like-named variant — except the two D22 arms -/
theorem renames_only_without_namesake_partial :
    (armsN.filter (fun a => !isD22 a)).all (fun a => !namesakeAvailable armsN a) = true := by
  decide +kernel

/-- both D22 arms are renamed although the namesake exists in `ffi::EmptyResponseError` -/
theorem renames_only_without_namesake_counterexample :
    (armsN.filter isD22).all (namesakeAvailable armsN) = true := by
  decide +kernel

/-- the enumerations related by each arm are namesakes or a reviewed pairing -/
theorem arm_types_namesake : armsN.all (ArmTypesNamesake typeRenames) = true := by
  decide +kernel

/-- within one conversion distinct source variants go to distinct targets, except the deliberate collapses -/
theorem arms_injective : ImplInjective manyToOne armsN = true := by
  decide +kernel

/-- every struct conversion assigns field `f` from accessor `f` (no crossed fields, no `..base`, reviewed constants
    only) and no two target fields read the same source.
    (Full strength since the repair of D21 — `From<dnp3::app::Permissions> for ffi::Permissions` used to
    assign `group ← world`, `owner ← group`; see known_findings.jsonl, entry `fixed: … D21`.) -/
theorem struct_fields_namesake :
    StructFieldsNamesake fieldRenames constFields fieldsN = true := by
  decide +kernel

/-- the crossed rows of D21 are gone from the table read from the current source -/
theorem d21_absent : d21Present = false := by
  decide +kernel

end Dnp3.Props.C20
