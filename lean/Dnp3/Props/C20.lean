import Dnp3.Props.C20Lists
import Dnp3.Model.FfiMeas
/-!
# C20 — The C/.NET/Java binding layer maps every value to its namesake, losslessly

The quantifier of the property ("every variant of every enumeration and every conversion impl in the binding
crate") is the finite table `Dnp3.Gen.Ffi.arms` / `fields`, regenerated from `ffi/dnp3-ffi/src/**.rs` on every
run by `tools/gen_ffi.py` (every arm of every conversion `match`, every field assignment of every struct
conversion).  Exhaustiveness of each `match` and completeness of each struct literal are rustc's (trusted base);
a wildcard arm or a `..base` would appear in the table (`lvar = "_"`, kind `rest`) and fail the theorems below.

All theorems are closed `Bool` computations over the whole table, checked by the kernel (`decide +kernel`).
The reviewed exception lists are *here*, one comment per entry; a mapping that is not a namesake and not listed
fails `arms_namesake…`, a collision that is not listed fails `arms_injective`, a crossed field fails
`struct_fields_namesake…`.
-/
namespace Dnp3.Props.C20
open Dnp3.Gen.Ffi Dnp3.Ffi

/-! ## known finding D22 — `EmptyResponseError`: `IinError` and `RejectedByIin2` are exchanged
see `Dnp3.Ffi.isD22` (Model/Ffi.lean). -/

/-! ## Theorems -/

/-- the table is not empty and its declared sizes are its sizes -/
theorem table_wellformed : nArms = armsN.length ∧ nFields = fieldsN.length ∧ 0 < nArms ∧ 0 < nFields ∧
    armsN.all (fun a => a.impl < implNames.length) = true ∧ fieldsN.all (fun f => f.conv < convNames.length) = true := by
  decide +kernel

/-
Full statement (FALSE on the unchanged tree because of D22, see `arms_namesake_counterexample`):
  theorem arms_namesake : armsN.all (ArmNamesake renames) = true
-/
/-- every arm of every conversion maps a variant to its namesake, or is a reviewed rename — except the two D22 arms -/
theorem arms_namesake_partial : (armsN.filter (fun a => !isD22 a)).all (ArmNamesake renames) = true := by
  decide +kernel

/-- D22 is in the table (two arms), and `WriteError::IinError(_) => ffi::EmptyResponseError::RejectedByIin2` is neither a
    namesake nor covered by any reviewed rename -/
theorem arms_namesake_counterexample :
    (armsN.filter isD22).length = 2 ∧ (armsN.filter isD22).all (ArmNamesake renames) = false := by
  decide +kernel

/-
Full statement (FALSE on the unchanged tree because of D22):
  theorem renames_only_without_namesake : armsN.all (fun a => !namesakeAvailable armsN a) = true
-/
/-- no arm is renamed although its target enumeration has a like-named variant — except the two D22 arms -/
theorem renames_only_without_namesake_partial :
    (armsN.filter (fun a => !isD22 a)).all (fun a => !namesakeAvailable armsN a) = true := by
  decide +kernel

/-- both D22 arms are renamed although the namesake exists in `ffi::EmptyResponseError` -/
theorem renames_only_without_namesake_counterexample :
    (armsN.filter isD22).all (namesakeAvailable armsN) = true := by
  decide +kernel

/-- the enumerations related by each arm are namesakes or a reviewed pairing -/
theorem arm_types_namesake : armsN.all (ArmTypesNamesake typeRenames) = true := by
  decide +kernel

/-- within one conversion distinct source variants go to distinct targets, except the deliberate collapses -/
theorem arms_injective : ImplInjective manyToOne armsN = true := by
  decide +kernel

/-- every struct conversion assigns field `f` from accessor `f` (no crossed fields, no `..base`, reviewed constants
    only) and no two target fields read the same source.
    (Full strength since the repair of D21 — `From<dnp3::app::Permissions> for ffi::Permissions` used to
    assign `group ← world`, `owner ← group`; see known_findings.jsonl, entry `fixed: … D21`.) -/
theorem struct_fields_namesake :
    StructFieldsNamesake fieldRenames constFields fieldsN = true := by
  decide +kernel

/-- the crossed rows of D21 are gone from the table read from the current source -/
theorem d21_absent : d21Present = false := by
  decide +kernel

/-! ## master-side measurement path — `impl ReadHandler for ffi::ReadHandler`, `implement_iterator!`, `OctetStringIterator`

The quantifier ("every measurement handed to the foreign consumer") is the table `Dnp3.Gen.FfiHandler.*`, regenerated from
`ffi/dnp3-ffi/src/handler.rs` on every run by `tools/gen_ffi_handler.py`.  Together with `struct_fields_namesake`
(`index: idx`, `value: value.value`, `flags: value.flags.into()`, `time: value.time.into()` of every `ffi::X::new`) the
theorems below say that each field of each measurement struct the consumer reads is fed from its namesake of the
native value the master handed to the handler.  The dynamic half is the engine `ffimeas`. -/
section handler
open Dnp3.Gen.FfiHandler Dnp3.FfiHandler

/-- the tables are not empty: 12 iterator methods + 2 fragment methods + abs_time + device attribute, 11 macro
    instantiations, 9 attribute arms, 12 constructors -/
theorem handler_table_wellformed :
    0 < methods.length ∧ 0 < iterators.length ∧ 0 < attrArms.length ∧ 0 < ctors.length ∧
    (methods.filter (·.kind == 0)).length = iterators.length + 1 ∧
    distinct (methods.map (·.name)) = true ∧ distinct (iterators.map (·.itName)) = true ∧
    distinct (iterators.map (·.func)) = true ∧ distinct (iterators.map (·.libTy)) = true := by
  decide +kernel

/-- every method of the impl invokes exactly one callback of the interface struct — its namesake — and a measurement
    method hands it (self, info.into(), &mut <its own adapter>::new(iter)) -/
theorem handler_methods_namesake : methods.all (MethodNamesake methodCfg attrArms.length) = true := by
  decide +kernel

/-- every adapter is built by exactly one method; `OctetStringIterator` too; no method builds anything else -/
theorem handler_adapters_used_once : AdaptersUsedOnce octetIt methods iterators = true := by
  decide +kernel

/-- `implement_iterator!(XIterator, x_iterator_next, X, ffi::X)` for every instantiation -/
theorem iterator_instances_namesake :
    iterators.all (IterInstNamesake methodCfg.sIterator (c!"IteratorNext") (c!"ffi::")) = true := by
  decide +kernel

/-- the macro's `fn next` turns the native pair `(value: $lib_type, idx: u16)` into `<$ffi_type>::new(idx, value)`,
    and the constructor of every instantiation takes `(idx: u16, value: <its native type>)` -/
theorem iterator_macro_feeds_namesake :
    MacroFeedsNamesake macroCfg = true ∧ iterators.all (CtorMatches macroCfg ctors) = true := by
  decide +kernel

/-- every exported next function advances the adapter and then yields the slot -/
theorem iterator_next_advances_then_yields : macroFnSteps = nextSteps ∧ octetFnSteps = nextSteps := by
  decide +kernel

/-- a fresh `ByteIterator` is created for EVERY octet string (seed S80 removes the reset of the slot: the second and
    later strings of a header then reach the consumer through the consumed iterator of the first), the item is built from
    the string's own index and that iterator, and the exhausted branch clears the item -/
theorem octet_iterator_fresh_byte_iterator :
    octetItem = [c!"&'a[u8]", c!"u16"] ∧
    octetNewInit = [c!"inner", c!"next:None", c!"current_byte_it:None"] ∧
    FreshByteIterator (c!"crate::ByteIterator::new") (c!"ffi::OctetString::new") (c!"self.next") octetNextPattern octetNextSome = true ∧
    ExhaustedClears (c!"self.next") octetNextElse = true := by
  decide +kernel

/-- every arm of `handle_device_attribute` invokes its namesake callback with the arm's own value and the enum of the
    arm's own kind; distinct variants reach distinct callbacks -/
theorem attr_arms_namesake :
    attrArms.all (AttrArmNamesake attrCfg) = true ∧
    distinct (attrArms.map (·.variant)) = true ∧ distinct (attrArms.map (·.callee)) = true := by
  decide +kernel

end handler

/-! ### the model of the crossing used by the engine `ffimeas` (Model/FfiMeas.lean) is lossless -/

/-- a value without a payload-carrying variant crosses unchanged: the model the real binding layer is compared with
    is the identity -/
theorem model_crossing_lossless (l : List Char) (h : ∀ c ∈ l, c ≠ '(') : Dnp3.FfiMeas.strip 0 l = l := by
  induction l with
  | nil => rfl
  | cons c cs ih =>
    have hc : c ≠ '(' := h c (by simp)
    have hcs : ∀ x ∈ cs, x ≠ '(' := fun x hx => h x (by simp [hx])
    simp [Dnp3.FfiMeas.strip, hc, ih hcs]

example : Dnp3.FfiMeas.strip 0 "i 7 1 81 sync:5".toList = "i 7 1 81 sync:5".toList :=
  model_crossing_lossless _ (by decide)

/-- the only thing the model drops is a parenthesised payload -/
example : String.ofList (Dnp3.FfiMeas.strip 0 "octet_string Group110(5) Range8 0 0".toList) = "octet_string Group110 Range8 0 0" := by
  decide

end Dnp3.Props.C20
