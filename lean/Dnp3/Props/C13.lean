import Dnp3.Model.OutstationTrace
/-!
# C13 — Internal indication bits tell the truth (session plumbing)
-/
namespace Dnp3.Props.C13
open Dnp3

/-- `get_response_iin` never changes the restart flag, and only clears a non-mandatory broadcast -/
theorem get_iin_state_effect (s s' : OState) (i1 i2 : Nat) (h : getResponseIin s = some (s', i1, i2)) :
    s'.restart = s.restart ∧
    (s'.lastBroadcast = s.lastBroadcast ∨ (s'.lastBroadcast = none ∧ ∃ m, s.lastBroadcast = some m ∧ m ≠ 1)) := by
  unfold getResponseIin at h
  split at h
  · cases h
  · rename_i c1 c2 c3 hc
    simp only at h
    cases hb : s.lastBroadcast with
    | none => simp [hb] at h; obtain ⟨rfl, _, _⟩ := h; simp [hb]
    | some m =>
      simp [hb] at h
      by_cases hm : m = 1
      · simp [hm] at h; obtain ⟨rfl, _, _⟩ := h; simp [hb]
      · simp [hm] at h; obtain ⟨rfl, _, _⟩ := h; exact ⟨rfl, Or.inr ⟨rfl, m, rfl, hm⟩⟩

end Dnp3.Props.C13
