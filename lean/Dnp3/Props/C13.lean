import Dnp3.Model.OutstationTrace
import Dnp3.Proofs.OutstationC13
import Dnp3.Props.DbComponent
/-!
# C13 — Internal indication bits tell the truth

Two layers, both over ALL states / inputs / histories of the models:

* session plumbing (`Dnp3.Proofs.OutstationC13`, the database opaque): which state every IIN bit of
  every freshly built response is copied from (`iin_of_fresh_response`), the life of the restart
  bit (`restart_*`: set at construction, cleared only by a WRITE of g80v1 index 7 = 0, never set
  again), the broadcast bit (`broadcast_*`), the application-controlled bits (`app_bits_mirror`);
* database component (`Dnp3.Props.DbComponent`): the class bits equal "an unwritten event of that
  class is buffered" and `unwritten_classes` never underflows (`class_bits_exact`,
  `no_counter_underflow`, for every operation sequence and per operation; D3 repaired), the overflow
  bit interval (`overflow_flag_*`).

The statements are restated verbatim from the proof files; definitions used in them
(`StepWriteClears`, `StepFrag`, `BcastOf`, `IsSolConfirm`, `BcEvid`, `clearOut`, …) are in
`Dnp3.Proofs.OutstationSkel` / `OutstationC13`.
Known defects: D16 (an unsolicited confirm clears a broadcast indication that was never reported:
`confirm_clears_broadcast` is the exact characterisation).
D4 (events of an unconfirmed unsolicited response stayed `Written`, under-reporting the class bits) is
repaired: outside a response series no record is `Written` (`Dnp3.Props.C03`, section Session).
-/
namespace Dnp3.Props.C13
open Dnp3 Dnp3.Proofs.Frame Dnp3.Proofs.Iin Dnp3.Proofs.Skel Dnp3.Proofs.C13

/-- `get_response_iin` never changes the restart flag, and only clears a non-mandatory broadcast -/
theorem get_iin_state_effect (s s' : OState) (i1 i2 : Nat) (h : getResponseIin s = some (s', i1, i2)) :
    s'.restart = s.restart ∧
    (s'.lastBroadcast = s.lastBroadcast ∨ (s'.lastBroadcast = none ∧ ∃ m, s.lastBroadcast = some m ∧ m ≠ 1)) := by
  unfold getResponseIin at h
  split at h
  · cases h
  · rename_i c1 c2 c3 hc
    simp only at h
    cases hb : s.lastBroadcast with
    | none => simp [hb] at h; obtain ⟨rfl, _, _⟩ := h; simp [hb]
    | some m =>
      simp [hb] at h
      by_cases hm : m = 1
      · simp [hm] at h; obtain ⟨rfl, _, _⟩ := h; simp [hb]
      · simp [hm] at h; obtain ⟨rfl, _, _⟩ := h; exact ⟨rfl, Or.inr ⟨rfl, m, rfl, hm⟩⟩


/-! ## Session plumbing -/

/-- **C13.1** (`iin_of_fresh_response`): both kinds of fresh response, with the per-bit reading. -/
theorem iin_of_fresh_response (a : Acc) (dst : Nat) (r : Resp) (a' : Acc) (r' : Resp) (dst' : Nat)
    (h : writeSolicited a dst r = some (a', r') ∧ dst' = dst ∨
         writeUnsolicited a r = some (a', r') ∧ dst' = a.1.cfg.master) :
    ∃ i1 i2 bytes c1 c2 c3,
      a'.2 = a.2 ++ [.tx dst' bytes] ∧
      bytes.take 4 = [r'.ctrl.toNat, r'.func, r.iin1 ||| i1, r.iin2 ||| i2] ∧
      a.1.db.unwrittenClasses = some (c1, c2, c3) ∧
      (i1.testBit 7 = a.1.restart) ∧
      (i1.testBit 1 = c1) ∧ (i1.testBit 2 = c2) ∧ (i1.testBit 3 = c3) ∧
      (i2.testBit 3 = a.1.db.isOverflown) ∧
      (i1.testBit 0 = a.1.lastBroadcast.isSome) ∧
      (i1.testBit 4 = a.1.script.appIin.testBit 0) ∧
      (i1.testBit 5 = a.1.script.appIin.testBit 1) ∧
      (i1.testBit 6 = a.1.script.appIin.testBit 2) ∧
      (i2.testBit 5 = a.1.script.appIin.testBit 3) ∧
      i1 < 256 ∧ (∀ i, i ≠ 3 → i ≠ 5 → i2.testBit i = false) :=
  @Dnp3.Proofs.C13.iin_of_fresh_response a dst r a' r' dst' h

/-- **C13.4** (`app_bits_mirror`): need-time, local-control, device-trouble, configuration-corrupt
    in a fresh response are exactly bits 0–3 of the application's answer at that moment. -/
theorem app_bits_mirror (a : Acc) (dst : Nat) (r : Resp) (a' : Acc) (r' : Resp)
    (h : writeSolicited a dst r = some (a', r') ∨ writeUnsolicited a r = some (a', r'))
    (hr1 : r.iin1 = 0) (hr2 : r.iin2 &&& 0x20 = 0) :
    r'.iin1.testBit 4 = a.1.script.appIin.testBit 0 ∧
    r'.iin1.testBit 5 = a.1.script.appIin.testBit 1 ∧
    r'.iin1.testBit 6 = a.1.script.appIin.testBit 2 ∧
    r'.iin2.testBit 5 = a.1.script.appIin.testBit 3 :=
  @Dnp3.Proofs.C13.app_bits_mirror a dst r a' r' h hr1 hr2

/-- the per-step form all of C13.2 follows from -/
theorem restart_step (env : OEnv) (s : OState) (inp : OInput) :
    ((Outstation.step env s inp).1.restart = s.restart ∧ clearOut ∉ (Outstation.step env s inp).2) ∨
    ((Outstation.step env s inp).1.restart = false ∧ clearOut ∈ (Outstation.step env s inp).2 ∧
      StepWriteClears s inp) :=
  @Dnp3.Proofs.C13.restart_step env s inp

/-- **C13.2** (`restart_bit_interval`), per step, for every state and every input:
    * set at construction;
    * never set again;
    * unchanged by a disconnect and by a script change — and by `.tick`, `.txn`, `.add` whenever no
      fragment is left pending (always so on the reachable path, see `restart_step` for the general form);
    * it falls only in a step that emits `clearRestartIin`;
    * that callback is emitted only when the fragment handled is a WRITE (function 2) carrying a
      g80v1 / qualifier 0x00 header whose range reaches index 7 with that bit zero — and then the bit
      is clear afterwards. -/
theorem restart_bit_interval (env : OEnv) (s : OState) (inp : OInput) (cfg : OCfg) (evMax : Nat) :
    (OState.init cfg evMax).restart = true ∧
    ((Outstation.step env s inp).1.restart = true → s.restart = true) ∧
    ((inp matches .cut | .setScript _) ∨ (s.pending = none ∧ (inp matches .tick _ | .txn _ | .add ..)) →
      (Outstation.step env s inp).1.restart = s.restart) ∧
    (s.restart = true → (Outstation.step env s inp).1.restart = false →
      OOut.cb .clearRestartIin ∈ (Outstation.step env s inp).2) ∧
    (OOut.cb .clearRestartIin ∈ (Outstation.step env s inp).2 →
      (Outstation.step env s inp).1.restart = false ∧ StepWriteClears s inp) :=
  @Dnp3.Proofs.C13.restart_bit_interval env s inp cfg evMax

/-- the start-up pass leaves the bit set and emits no `clearRestartIin` -/
theorem restart_at_start (cfg : OCfg) (evMax : Nat) :
    (Outstation.start cfg evMax).1.restart = true ∧ clearOut ∉ (Outstation.start cfg evMax).2 :=
  @Dnp3.Proofs.C13.restart_at_start cfg evMax

/-- **C13.2, trace level**: over any input list, `restart` is set at the end iff it was set at the
    beginning and no step so far emitted `clearRestartIin` — i.e. it is true until the first such step
    and false from then on (apply to every prefix). -/
theorem restart_run (env : OEnv) (is : List OInput) (s : OState) :
    (Outstation.run env s is).1.restart = true ↔
      s.restart = true ∧ ∀ o ∈ (Outstation.run env s is).2, OOut.cb .clearRestartIin ∉ o :=
  @Dnp3.Proofs.C13.restart_run env is s

/-- corollary for a whole history from construction -/
theorem restart_history (cfg : OCfg) (evMax : Nat) (env : OEnv) (is : List OInput) :
    (Outstation.run env (Outstation.start cfg evMax).1 is).1.restart = true ↔
      ∀ o ∈ (Outstation.run env (Outstation.start cfg evMax).1 is).2, OOut.cb .clearRestartIin ∉ o :=
  @Dnp3.Proofs.C13.restart_history cfg evMax env is

/-- (a) a processed broadcast fragment records its confirm mode -/
theorem broadcast_recorded (a : Acc) (f : Frag) (m : Nat) (ctrl : AppCtrl) (func : Nat)
    (objs : Except Nat (List ObjHdr)) (raw : List Nat) (a' : Acc)
    (h : processBroadcast a f m ctrl func objs raw = some a') : a'.1.lastBroadcast = some m :=
  @Dnp3.Proofs.C13.broadcast_recorded a f m ctrl func objs raw a' h

/-- (b) `getResponseIin` reports a recorded broadcast in IIN1 bit 0 and forgets it unless it is
    confirm-mandatory (mode 1); it touches nothing else -/
theorem broadcast_reported (s s' : OState) (i1 i2 : Nat) (h : getResponseIin s = some (s', i1, i2)) :
    i1.testBit 0 = s.lastBroadcast.isSome ∧
    s' = { s with lastBroadcast := if s.lastBroadcast = some 1 then some 1 else none } :=
  @Dnp3.Proofs.C13.broadcast_reported s s' i1 i2 h

/-- (c) while a confirm-mandatory broadcast is unreported-unconfirmed, every solicited response asks for a confirm -/
theorem broadcast_forces_con (a : Acc) (dst : Nat) (r : Resp) (a' : Acc) (r' : Resp)
    (h : writeSolicited a dst r = some (a', r')) (hb : a.1.lastBroadcast = some 1) :
    r'.ctrl.con = true ∧ a'.1.lastBroadcast = some 1 :=
  @Dnp3.Proofs.C13.broadcast_forces_con a dst r a' r' h hb

/-- **C13.3** (`broadcast_bit_rule`), per step, for every state and input.  With `pf` the fragment the
    step examines:
    * `lastBroadcast` ends unchanged, or cleared, or equal to the confirm mode of the broadcast
      fragment `pf`;
    * it is *set* only in a step that processed a broadcast (`Cb.broadcast` in the outputs);
    * a confirm-mandatory record (`some 1`) persists unless the step shows an accepted solicited /
      unsolicited confirm or a new broadcast — or `pf` is a solicited CONFIRM (the silent
      "solicited confirm during the unsolicited wait" case);
    * nothing at all changes it in a step that transmits no response and shows none of those. -/
theorem broadcast_bit_rule (env : OEnv) (s : OState) (inp : OInput) :
    ∃ pf, StepFrag env s inp pf ∧
      ((Outstation.step env s inp).1.lastBroadcast = s.lastBroadcast ∨
        (Outstation.step env s inp).1.lastBroadcast = none ∨
        ∃ m, BcastOf pf m ∧ (Outstation.step env s inp).1.lastBroadcast = some m) ∧
      ((∀ o ∈ (Outstation.step env s inp).2, OOut.kind o ≠ .bcast) →
        (Outstation.step env s inp).1.lastBroadcast = s.lastBroadcast ∨
        (Outstation.step env s inp).1.lastBroadcast = none) ∧
      (¬ IsSolConfirm pf → (∀ o ∈ (Outstation.step env s inp).2, ¬ BcEvid o) →
        s.lastBroadcast = some 1 → (Outstation.step env s inp).1.lastBroadcast = some 1) ∧
      (¬ IsSolConfirm pf → (∀ o ∈ (Outstation.step env s inp).2, ¬ BcEvid o ∧ OOut.kind o ≠ .tx) →
        (Outstation.step env s inp).1.lastBroadcast = s.lastBroadcast) :=
  @Dnp3.Proofs.C13.broadcast_bit_rule env s inp

/-- (d) the three accepted confirms really clear a confirm-mandatory record -/
theorem confirm_clears_broadcast (a : Acc) (o : List OOut) (c : Cb) (isNull : Bool) :
    (clearWrittenEvents ({ a.1 with lastBroadcast := none }, o)).1.lastBroadcast = none ∧
    (afterUnsolSeries (emitCb ({ a.1 with lastBroadcast := none }, a.2) c) isNull true).1.1.lastBroadcast = none ∧
    (if a.1.lastBroadcast = some 1 then (({ a.1 with lastBroadcast := none }, a.2) : Acc) else a).1.lastBroadcast ≠ some 1 :=
  @Dnp3.Proofs.C13.confirm_clears_broadcast a o c isNull


/-! ## Database component (restated from `Dnp3.Props.Db`) -/

section Db
open Dnp3.DbM Dnp3.DbProofs

/-- `counters_exact`: `total` AND `written` counters equal the per-class / per-type counts of
    records / of `Written` records: an invariant of every operation sequence from a fresh database,
    the overflow of a `Written` record out of the buffer included (false before the repair of D3:
    `insert` left `written` too high) -/
theorem counters_exact (evMax : Nat) (sel : Option Nat) (ops : List DbOp) :
    CountersExact (run (Db.new evMax sel) ops) :=
  @Dnp3.Props.Db.counters_exact evMax sel ops

/-- … and it is preserved by every single operation from any state that has it -/
theorem counters_exact_preserved (db : Db) (op : DbOp) (h : CountersExact db) : CountersExact (step db op) :=
  @Dnp3.Props.Db.counters_exact_preserved db op h

/-- `class_bits_exact`: after every operation sequence from a fresh database `unwritten_classes`
    does not panic and bit c is set iff the buffer holds a class-c record that is not `Written` -/
theorem class_bits_exact (evMax : Nat) (sel : Option Nat) (ops : List DbOp) :
    ∃ b1 b2 b3, (run (Db.new evMax sel) ops).unwrittenClasses = some (b1, b2, b3) ∧
      (b1 = true ↔ ∃ r ∈ (run (Db.new evMax sel) ops).events, r.cls = 1 ∧ r.st ≠ .written) ∧
      (b2 = true ↔ ∃ r ∈ (run (Db.new evMax sel) ops).events, r.cls = 2 ∧ r.st ≠ .written) ∧
      (b3 = true ↔ ∃ r ∈ (run (Db.new evMax sel) ops).events, r.cls = 3 ∧ r.st ≠ .written) :=
  @Dnp3.Props.Db.class_bits_exact evMax sel ops

/-- … and after every single operation from any state with exact counters -/
theorem class_bits_exact_step (db : Db) (op : DbOp) (h : CountersExact db) :
    ∃ b1 b2 b3, (step db op).unwrittenClasses = some (b1, b2, b3) ∧
      (b1 = true ↔ ∃ r ∈ (step db op).events, r.cls = 1 ∧ r.st ≠ .written) ∧
      (b2 = true ↔ ∃ r ∈ (step db op).events, r.cls = 2 ∧ r.st ≠ .written) ∧
      (b3 = true ↔ ∃ r ∈ (step db op).events, r.cls = 3 ∧ r.st ≠ .written) :=
  @Dnp3.Props.Db.class_bits_exact_step db op h

/-- `no_counter_underflow`: the checked subtraction `total - written` of `unwritten_classes`
    (`Count::subtract`) never underflows on a database reached from a fresh one by any operation
    sequence (`none` = the panic of the dev build) -/
theorem no_counter_underflow (evMax : Nat) (sel : Option Nat) (ops : List DbOp) :
    (run (Db.new evMax sel) ops).unwrittenClasses ≠ none :=
  @Dnp3.Props.Db.no_counter_underflow evMax sel ops

/-- … nor after any single operation from any state with exact counters -/
theorem no_counter_underflow_step (db : Db) (op : DbOp) (h : CountersExact db) :
    (step db op).unwrittenClasses ≠ none :=
  @Dnp3.Props.Db.no_counter_underflow_step db op h

/-- the overflow flag: raised by every discard, never lowered by an insert, and after a clear it
    is set iff it was set and some type is still at capacity -/
theorem overflow_flag_interval (db : Db) (idx cls : Nat) (t : PtType) (m : Meas) (dv : Nat) :
    (∀ c d, (db.insert idx cls t m dv).2 = .overflow c d → (db.insert idx cls t m dv).1.isOverflown = true) ∧
    (db.isOverflown = true → (db.insert idx cls t m dv).1.isOverflown = true) ∧
    db.clearWritten.1.isOverflown = (db.isOverflown && db.clearWritten.1.isAnyFull) :=
  @Dnp3.Props.Db.overflow_flag_interval db idx cls t m dv

/-- nothing but insert and clear changes the flag -/
theorem overflow_flag_frame (db : Db) (op : DbOp)
    (h : match op with | .update .. => False | .clear => False | _ => True) :
    (step db op).isOverflown = db.isOverflown :=
  @Dnp3.Props.Db.overflow_flag_frame db op h

/-- with exact totals (always, `total_exact_invariant`) "some type at capacity" is a statement
    about the records in the buffer -/
theorem any_full_iff (db : Db) (h : TotalExact db) :
    db.isAnyFull = true ↔ db.evMax ≠ 0 ∧
      (db.evMax ≤ db.events.countP (fun r => r.ty == .binary) ∨ db.evMax ≤ db.events.countP (fun r => r.ty == .analog)) :=
  @Dnp3.Props.Db.any_full_iff db h

/-- an overflow is reported, raises the overflow flag, and discards the OLDEST record of the type -/
theorem overflow_reported_discards_oldest (db : Db) (idx cls : Nat) (t : PtType) (m : Meas) (dv c dId : Nat)
    (ho : Ordered db) (h : (db.insert idx cls t m dv).2 = .overflow c dId) :
    ∃ d ∈ db.events, d.id = dId ∧ d.ty = t ∧ (db.insert idx cls t m dv).1.overflown = true ∧
      ∀ r ∈ db.events, r.ty = t → r ≠ d → d.id < r.id :=
  @Dnp3.Props.Db.overflow_reported_discards_oldest db idx cls t m dv c dId ho h


end Db

end Dnp3.Props.C13
