import Dnp3.Model.OutstationTrace
import Dnp3.Proofs.OutstationC13
import Dnp3.Props.DbComponent
/-!
# C13 — Internal indication bits tell the truth

Two layers, both over ALL states / inputs / histories of the models:

* session plumbing (`Dnp3.Proofs.OutstationC13`, the database opaque): which state every IIN bit of
  every freshly built response is copied from (`iin_of_fresh_response`), the life of the restart
  bit (`restart_*`: set at construction, cleared only by a WRITE of g80v1 index 7 = 0, never set
  again), the broadcast bit (`broadcast_*`), the application-controlled bits (`app_bits_mirror`);
* database component (`Dnp3.Props.DbComponent`, all eight point types, every per-type capacity
  configuration): the class bits equal "an unwritten event of that class is buffered" and
  `unwritten_classes` never underflows (`class_bits_exact`, `no_counter_underflow`, for every operation
  sequence and per operation; D3 repaired), the overflow bit interval (`overflow_flag_*`; "some type at
  capacity" asks every type exactly once: `is_any_full_each_type_once`, `any_full_iff`, `type_capacity`).

The statements are restated verbatim from the proof files; definitions used in them
(`StepWriteClears`, `StepFrag`, `BcastOf`, `IsSolConfirm`, `BcEvid`, `Quiet`, `Quiet1`, `ReportedOk`,
`QuietRun`, `clearOut`, …) are in
`Dnp3.Proofs.OutstationSkel` / `OutstationC13`.
D16 (an unsolicited confirm cleared a broadcast indication that was never reported) is repaired:
`OState.unsolReported` records whether the unsolicited response awaiting its confirm carried IIN1.0 with no
broadcast received since; the unsolicited confirm clears the record only then (`confirm_clears_broadcast`,
clauses 5 and 6 of `broadcast_bit_rule` = `unsol_confirm_keeps_unreported` / `unsol_confirm_keeps_mandatory`).
The flag is sound in every state (`unsolReported_sound*`, invariant `ReportedOk`), a broadcast processed
during the unsolicited wait resets it (`broadcast_in_wait_resets_reported`), and the record it leaves
survives the unsolicited confirm along every run (`broadcast_never_dropped_by_unsol_confirm`,
`mandatory_broadcast_never_dropped_by_unsol_confirm`; `unsol_confirm_keeps_broadcast_example` /
`unsol_confirm_keeps_mandatory_example` evaluate two concrete traces).
D4 (events of an unconfirmed unsolicited response stayed `Written`, under-reporting the class bits) is
repaired: outside a response series no record is `Written` (`Dnp3.Props.C03`, section Session).
-/
namespace Dnp3.Props.C13
open Dnp3 Dnp3.Proofs.Frame Dnp3.Proofs.Iin Dnp3.Proofs.Skel Dnp3.Proofs.C13

/-- `get_response_iin` never changes the restart flag, and only clears a non-mandatory broadcast -/
theorem get_iin_state_effect (s s' : OState) (i1 i2 : Nat) (h : getResponseIin s = some (s', i1, i2)) :
    s'.restart = s.restart ∧
    (s'.lastBroadcast = s.lastBroadcast ∨ (s'.lastBroadcast = none ∧ ∃ m, s.lastBroadcast = some m ∧ m ≠ 1)) := by
  unfold getResponseIin at h
  split at h
  · cases h
  · rename_i c1 c2 c3 hc
    simp only at h
    cases hb : s.lastBroadcast with
    | none => simp [hb] at h; obtain ⟨rfl, _, _⟩ := h; simp [hb]
    | some m =>
      simp [hb] at h
      by_cases hm : m = 1
      · simp [hm] at h; obtain ⟨rfl, _, _⟩ := h; simp [hb]
      · simp [hm] at h; obtain ⟨rfl, _, _⟩ := h; exact ⟨rfl, Or.inr ⟨rfl, m, rfl, hm⟩⟩


/-! ## Session plumbing -/

/-- **C13.1** (`iin_of_fresh_response`): both kinds of fresh response, with the per-bit reading. -/
theorem iin_of_fresh_response (a : Acc) (dst : Nat) (r : Resp) (a' : Acc) (r' : Resp) (dst' : Nat)
    (h : writeSolicited a dst r = some (a', r') ∧ dst' = dst ∨
         writeUnsolicited a r = some (a', r') ∧ dst' = a.1.cfg.master) :
    ∃ i1 i2 bytes c1 c2 c3,
      a'.2 = a.2 ++ [.tx dst' bytes] ∧
      bytes.take 4 = [r'.ctrl.toNat, r'.func, r.iin1 ||| i1, r.iin2 ||| i2] ∧
      a.1.db.unwrittenClasses = some (c1, c2, c3) ∧
      (i1.testBit 7 = a.1.restart) ∧
      (i1.testBit 1 = c1) ∧ (i1.testBit 2 = c2) ∧ (i1.testBit 3 = c3) ∧
      (i2.testBit 3 = a.1.db.isOverflown) ∧
      (i1.testBit 0 = a.1.lastBroadcast.isSome) ∧
      (i1.testBit 4 = a.1.script.appIin.testBit 0) ∧
      (i1.testBit 5 = a.1.script.appIin.testBit 1) ∧
      (i1.testBit 6 = a.1.script.appIin.testBit 2) ∧
      (i2.testBit 5 = a.1.script.appIin.testBit 3) ∧
      i1 < 256 ∧ (∀ i, i ≠ 3 → i ≠ 5 → i2.testBit i = false) :=
  @Dnp3.Proofs.C13.iin_of_fresh_response a dst r a' r' dst' h

/-- **C13.4** (`app_bits_mirror`): need-time, local-control, device-trouble, configuration-corrupt
    in a fresh response are exactly bits 0–3 of the application's answer at that moment. -/
theorem app_bits_mirror (a : Acc) (dst : Nat) (r : Resp) (a' : Acc) (r' : Resp)
    (h : writeSolicited a dst r = some (a', r') ∨ writeUnsolicited a r = some (a', r'))
    (hr1 : r.iin1 = 0) (hr2 : r.iin2 &&& 0x20 = 0) :
    r'.iin1.testBit 4 = a.1.script.appIin.testBit 0 ∧
    r'.iin1.testBit 5 = a.1.script.appIin.testBit 1 ∧
    r'.iin1.testBit 6 = a.1.script.appIin.testBit 2 ∧
    r'.iin2.testBit 5 = a.1.script.appIin.testBit 3 :=
  @Dnp3.Proofs.C13.app_bits_mirror a dst r a' r' h hr1 hr2

/-- the per-step form all of C13.2 follows from -/
theorem restart_step (env : OEnv) (s : OState) (inp : OInput) :
    ((Outstation.step env s inp).1.restart = s.restart ∧ clearOut ∉ (Outstation.step env s inp).2) ∨
    ((Outstation.step env s inp).1.restart = false ∧ clearOut ∈ (Outstation.step env s inp).2 ∧
      StepWriteClears s inp) :=
  @Dnp3.Proofs.C13.restart_step env s inp

/-- **C13.2** (`restart_bit_interval`), per step, for every state and every input:
    * set at construction;
    * never set again;
    * unchanged by a disconnect and by a script change — and by `.tick`, `.txn`, `.add` whenever no
      fragment is left pending (always so on the reachable path, see `restart_step` for the general form);
    * it falls only in a step that emits `clearRestartIin`;
    * that callback is emitted only when the fragment handled is a WRITE (function 2) carrying a
      g80v1 / qualifier 0x00 header whose range reaches index 7 with that bit zero — and then the bit
      is clear afterwards. -/
theorem restart_bit_interval (env : OEnv) (s : OState) (inp : OInput) (cfg : OCfg) (evMax : Nat) :
    (OState.init cfg evMax).restart = true ∧
    ((Outstation.step env s inp).1.restart = true → s.restart = true) ∧
    ((inp matches .cut | .setScript _) ∨ (s.pending = none ∧ (inp matches .tick _ | .txn _ | .add ..)) →
      (Outstation.step env s inp).1.restart = s.restart) ∧
    (s.restart = true → (Outstation.step env s inp).1.restart = false →
      OOut.cb .clearRestartIin ∈ (Outstation.step env s inp).2) ∧
    (OOut.cb .clearRestartIin ∈ (Outstation.step env s inp).2 →
      (Outstation.step env s inp).1.restart = false ∧ StepWriteClears s inp) :=
  @Dnp3.Proofs.C13.restart_bit_interval env s inp cfg evMax

/-- the start-up pass leaves the bit set and emits no `clearRestartIin` -/
theorem restart_at_start (cfg : OCfg) (evMax : Nat) :
    (Outstation.start cfg evMax).1.restart = true ∧ clearOut ∉ (Outstation.start cfg evMax).2 :=
  @Dnp3.Proofs.C13.restart_at_start cfg evMax

/-- **C13.2, trace level**: over any input list, `restart` is set at the end iff it was set at the
    beginning and no step so far emitted `clearRestartIin` — i.e. it is true until the first such step
    and false from then on (apply to every prefix). -/
theorem restart_run (env : OEnv) (is : List OInput) (s : OState) :
    (Outstation.run env s is).1.restart = true ↔
      s.restart = true ∧ ∀ o ∈ (Outstation.run env s is).2, OOut.cb .clearRestartIin ∉ o :=
  @Dnp3.Proofs.C13.restart_run env is s

/-- corollary for a whole history from construction -/
theorem restart_history (cfg : OCfg) (evMax : Nat) (env : OEnv) (is : List OInput) :
    (Outstation.run env (Outstation.start cfg evMax).1 is).1.restart = true ↔
      ∀ o ∈ (Outstation.run env (Outstation.start cfg evMax).1 is).2, OOut.cb .clearRestartIin ∉ o :=
  @Dnp3.Proofs.C13.restart_history cfg evMax env is

/-- (a) a processed broadcast fragment records its confirm mode -/
theorem broadcast_recorded (a : Acc) (f : Frag) (m : Nat) (ctrl : AppCtrl) (func : Nat)
    (objs : Except Nat (List ObjHdr)) (raw : List Nat) (a' : Acc)
    (h : processBroadcast a f m ctrl func objs raw = some a') : a'.1.lastBroadcast = some m :=
  @Dnp3.Proofs.C13.broadcast_recorded a f m ctrl func objs raw a' h

/-- (b) `getResponseIin` reports a recorded broadcast in IIN1 bit 0 and forgets it unless it is
    confirm-mandatory (mode 1); it touches nothing else -/
theorem broadcast_reported (s s' : OState) (i1 i2 : Nat) (h : getResponseIin s = some (s', i1, i2)) :
    i1.testBit 0 = s.lastBroadcast.isSome ∧
    s' = { s with lastBroadcast := if s.lastBroadcast = some 1 then some 1 else none } :=
  @Dnp3.Proofs.C13.broadcast_reported s s' i1 i2 h

/-- (c) while a confirm-mandatory broadcast is unreported-unconfirmed, every solicited response asks for a confirm -/
theorem broadcast_forces_con (a : Acc) (dst : Nat) (r : Resp) (a' : Acc) (r' : Resp)
    (h : writeSolicited a dst r = some (a', r')) (hb : a.1.lastBroadcast = some 1) :
    r'.ctrl.con = true ∧ a'.1.lastBroadcast = some 1 :=
  @Dnp3.Proofs.C13.broadcast_forces_con a dst r a' r' h hb

/-- **C13.3** (`broadcast_bit_rule`), per step, for every state and input.  With `pf` the fragment the
    step examines:
    * `lastBroadcast` ends unchanged, or cleared, or equal to the confirm mode of the broadcast
      fragment `pf`;
    * it is *set* only in a step that processed a broadcast (`Cb.broadcast` in the outputs);
    * a confirm-mandatory record (`some 1`) persists unless the step shows an accepted solicited /
      unsolicited confirm or a new broadcast — or `pf` is a solicited CONFIRM (the silent
      "solicited confirm during the unsolicited wait" case);
    * nothing at all changes it in a step that transmits no response and shows none of those;
    * (D16 repaired) an accepted unsolicited confirm changes it only if `unsolReported` was set: from a
      state with `unsolReported = false`, a step that shows no processed broadcast, no accepted solicited
      confirm and no transmitted fragment with IIN1.0 set (`Quiet`; `pf` not a solicited CONFIRM) leaves
      `lastBroadcast` as it is and `unsolReported` clear — an `unsolConfirmed` callback, retransmissions
      of the unsolicited response and responses not reporting a broadcast are all allowed in that step;
    * (D16 repaired) likewise a confirm-mandatory record (`some 1`) with `unsolReported = false` persists
      through a step that shows no processed broadcast, no accepted solicited confirm and no new
      unsolicited series (`Quiet1`; `pf` not a solicited CONFIRM), even if the step accepts the unsolicited
      confirm and transmits responses that report the record. -/
theorem broadcast_bit_rule (env : OEnv) (s : OState) (inp : OInput) :
    ∃ pf, StepFrag env s inp pf ∧
      ((Outstation.step env s inp).1.lastBroadcast = s.lastBroadcast ∨
        (Outstation.step env s inp).1.lastBroadcast = none ∨
        ∃ m, BcastOf pf m ∧ (Outstation.step env s inp).1.lastBroadcast = some m) ∧
      ((∀ o ∈ (Outstation.step env s inp).2, OOut.kind o ≠ .bcast) →
        (Outstation.step env s inp).1.lastBroadcast = s.lastBroadcast ∨
        (Outstation.step env s inp).1.lastBroadcast = none) ∧
      (¬ IsSolConfirm pf → (∀ o ∈ (Outstation.step env s inp).2, ¬ BcEvid o) →
        s.lastBroadcast = some 1 → (Outstation.step env s inp).1.lastBroadcast = some 1) ∧
      (¬ IsSolConfirm pf → (∀ o ∈ (Outstation.step env s inp).2, ¬ BcEvid o ∧ OOut.kind o ≠ .tx) →
        (Outstation.step env s inp).1.lastBroadcast = s.lastBroadcast) ∧
      (¬ IsSolConfirm pf → (∀ o ∈ (Outstation.step env s inp).2, Quiet o) → s.unsolReported = false →
        (Outstation.step env s inp).1.unsolReported = false ∧
        (Outstation.step env s inp).1.lastBroadcast = s.lastBroadcast) ∧
      (¬ IsSolConfirm pf → (∀ o ∈ (Outstation.step env s inp).2, Quiet1 o) → s.unsolReported = false →
        s.lastBroadcast = some 1 →
        (Outstation.step env s inp).1.unsolReported = false ∧
        (Outstation.step env s inp).1.lastBroadcast = some 1) :=
  @Dnp3.Proofs.C13.broadcast_bit_rule env s inp

/-- **C13.3, D16 repaired** (`unsol_confirm_keeps_unreported`), per step, for every state and input: the fifth
    clause of `broadcast_bit_rule` on its own.  From a state with `unsolReported = false` (no broadcast
    indication was reported by the unsolicited response awaiting its confirm), a step that shows no
    processed broadcast, no accepted solicited confirm and transmits no fragment with IIN1.0 set, and
    whose fragment is not a solicited CONFIRM, keeps `lastBroadcast` — even when it accepts the
    unsolicited confirm (`Cb.unsolConfirmed` among its outputs is allowed by `Quiet`). -/
theorem unsol_confirm_keeps_unreported (env : OEnv) (s : OState) (inp : OInput)
    (hsc : ∀ pf, StepFrag env s inp pf → ¬ IsSolConfirm pf)
    (hq : ∀ o ∈ (Outstation.step env s inp).2, Quiet o) (h0 : s.unsolReported = false) :
    (Outstation.step env s inp).1.unsolReported = false ∧
    (Outstation.step env s inp).1.lastBroadcast = s.lastBroadcast :=
  @Dnp3.Proofs.C13.unsol_confirm_keeps_unreported env s inp hsc hq h0

/-- the sixth clause of `broadcast_bit_rule` on its own: a confirm-mandatory record that the awaited unsolicited
    response did not report survives the step — the unsolicited confirm does not clear it, and the responses
    transmitted meanwhile report it (IIN1.0, CON forced: `broadcast_forces_con`) without clearing it -/
theorem unsol_confirm_keeps_mandatory (env : OEnv) (s : OState) (inp : OInput)
    (hsc : ∀ pf, StepFrag env s inp pf → ¬ IsSolConfirm pf)
    (hq : ∀ o ∈ (Outstation.step env s inp).2, Quiet1 o) (h0 : s.unsolReported = false)
    (h1 : s.lastBroadcast = some 1) :
    (Outstation.step env s inp).1.unsolReported = false ∧
    (Outstation.step env s inp).1.lastBroadcast = some 1 :=
  @Dnp3.Proofs.C13.unsol_confirm_keeps_mandatory env s inp hsc hq h0 h1

/-- (d) what the three accepted confirms do to the record: the solicited confirm (in the solicited wait)
    clears it; the unsolicited confirm clears it iff the confirmed response had reported it
    (`unsolReported`) and otherwise KEEPS it (D16 repaired: before, it was cleared unconditionally); a
    solicited confirm received in the unsolicited wait clears a confirm-mandatory record -/
theorem confirm_clears_broadcast (a : Acc) (o : List OOut) (c : Cb) (isNull : Bool) :
    (clearWrittenEvents ({ a.1 with lastBroadcast := none }, o)).1.lastBroadcast = none ∧
    (afterUnsolSeries (emitCb ({ a.1 with lastBroadcast := if a.1.unsolReported then none else a.1.lastBroadcast }, a.2) c)
      isNull true).1.1.lastBroadcast = (if a.1.unsolReported then none else a.1.lastBroadcast) ∧
    (if a.1.lastBroadcast = some 1 then (({ a.1 with lastBroadcast := none }, a.2) : Acc) else a).1.lastBroadcast ≠ some 1 :=
  @Dnp3.Proofs.C13.confirm_clears_broadcast a o c isNull

/-- **`unsolReported_sound`** (step level, every state, every input): `ReportedOk` — "if `unsolReported` is
    set while the session waits for an unsolicited confirm, the unsolicited response awaiting that confirm
    carried IIN1.0" — is preserved by `Outstation.step`. -/
theorem unsolReported_sound (env : OEnv) (s : OState) (inp : OInput) (h : ReportedOk s) :
    ReportedOk (Outstation.step env s inp).1 :=
  @Dnp3.Proofs.C13.unsolReported_sound env s inp h

/-- … and it holds after construction -/
theorem unsolReported_sound_start (cfg : OCfg) (evMax : Nat) : ReportedOk (Outstation.start cfg evMax).1 :=
  @Dnp3.Proofs.C13.unsolReported_sound_start cfg evMax

/-- hence in every state reachable from construction -/
theorem unsolReported_sound_reachable (cfg : OCfg) (evMax : Nat) (env : OEnv) (s : OState)
    (h : Outstation.Reachable cfg evMax env s) : ReportedOk s :=
  @Dnp3.Proofs.C13.unsolReported_sound_reachable cfg evMax env s h

/-- **`broadcast_in_wait_resets_reported`** (step level, every state, every input): a step that starts in the
    unsolicited confirm wait and processes a broadcast (a `Cb.broadcast` among its outputs) has the broadcast
    fragment `pf` (confirm mode `m`) as its fragment, stays in the wait, records `lastBroadcast = some m`
    and ends with `unsolReported = false` — so the confirm of the unsolicited response that is being
    awaited, written before that broadcast, will not clear the record (`unsol_confirm_keeps_unreported`). -/
theorem broadcast_in_wait_resets_reported (env : OEnv) (s : OState) (inp : OInput) (resp : Resp) (isNull : Bool)
    (retries : Option Nat) (dl : Nat) (hm : s.mode = .unsolWait resp isNull retries dl)
    (hb : ∃ o ∈ (Outstation.step env s inp).2, OOut.kind o = .bcast) :
    ∃ pf m, StepFrag env s inp pf ∧ BcastOf pf m ∧
      (Outstation.step env s inp).1.mode = s.mode ∧
      (Outstation.step env s inp).1.unsolReported = false ∧
      (Outstation.step env s inp).1.lastBroadcast = some m :=
  @Dnp3.Proofs.C13.broadcast_in_wait_resets_reported env s inp resp isNull retries dl hm hb

/-- trace form of `unsol_confirm_keeps_unreported`: along a quiet run from a state with
    `unsolReported = false` the record stays as it is, however many unsolicited confirms are accepted -/
theorem unreported_record_kept_run (env : OEnv) (is : List OInput) (s : OState) (h0 : s.unsolReported = false)
    (hq : QuietRun Quiet env s is) :
    (Outstation.run env s is).1.unsolReported = false ∧
    (Outstation.run env s is).1.lastBroadcast = s.lastBroadcast :=
  @Dnp3.Proofs.C13.unreported_record_kept_run env is s h0 hq

/-- trace form of `unsol_confirm_keeps_mandatory`: a confirm-mandatory record with `unsolReported = false`
    stays along a run without processed broadcast, accepted solicited confirm or new unsolicited series -/
theorem mandatory_record_kept_run (env : OEnv) (is : List OInput) (s : OState) (h0 : s.unsolReported = false)
    (hl : s.lastBroadcast = some 1) (hq : QuietRun Quiet1 env s is) :
    (Outstation.run env s is).1.unsolReported = false ∧
    (Outstation.run env s is).1.lastBroadcast = some 1 :=
  @Dnp3.Proofs.C13.mandatory_record_kept_run env is s h0 hl hq

/-- **C13.3, trace level, D16 repaired** (`broadcast_never_dropped_by_unsol_confirm`): a broadcast processed
    while the session waits for an unsolicited confirm (first input `i0`: the step starts in `.unsolWait …` and
    shows a `Cb.broadcast`) leaves the record `lastBroadcast = some m` (`m` the confirm mode of that
    fragment), and the record is still there at the end of every quiet continuation `is` of the run —
    in particular after the unsolicited confirm of that wait has been accepted (`Cb.unsolConfirmed` is
    `Quiet`), after retransmissions of the unsolicited response, and after responses that do not carry
    IIN1.0.  So the next response built reports it (`broadcast_reported`, `iin_of_fresh_response`):
    `getResponseIin` of the final state returns IIN1 with bit 0 set.
    (Before the repair of D16 the unsolicited confirm dropped the record unreported.) -/
theorem broadcast_never_dropped_by_unsol_confirm (env : OEnv) (s : OState) (i0 : OInput) (is : List OInput)
    (resp : Resp) (isNull : Bool) (retries : Option Nat) (dl : Nat)
    (hm : s.mode = .unsolWait resp isNull retries dl)
    (hb : ∃ o ∈ (Outstation.step env s i0).2, OOut.kind o = .bcast)
    (hq : QuietRun Quiet env (Outstation.step env s i0).1 is) :
    ∃ pf m, StepFrag env s i0 pf ∧ BcastOf pf m ∧
      (Outstation.run env s (i0 :: is)).1.lastBroadcast = some m ∧
      (Outstation.run env s (i0 :: is)).1.unsolReported = false ∧
      ∀ s' i1 i2, getResponseIin (Outstation.run env s (i0 :: is)).1 = some (s', i1, i2) → i1.testBit 0 = true :=
  @Dnp3.Proofs.C13.broadcast_never_dropped_by_unsol_confirm env s i0 is resp isNull retries dl hm hb hq

/-- … and for a confirm-mandatory broadcast (destination 0xFFFE, mode 1) processed during the unsolicited
    wait the continuation may also transmit responses that report the record (they carry IIN1.0 and CON,
    `broadcast_forces_con`, and do not clear it): the record `some 1` is still there after the unsolicited
    confirm, as long as no solicited confirm is accepted, no new broadcast processed and no new unsolicited
    series started (`Quiet1`) -/
theorem mandatory_broadcast_never_dropped_by_unsol_confirm (env : OEnv) (s : OState) (i0 : OInput)
    (is : List OInput) (resp : Resp) (isNull : Bool) (retries : Option Nat) (dl : Nat)
    (hm : s.mode = .unsolWait resp isNull retries dl)
    (hb : ∃ o ∈ (Outstation.step env s i0).2, OOut.kind o = .bcast)
    (h1 : (Outstation.step env s i0).1.lastBroadcast = some 1)
    (hq : QuietRun Quiet1 env (Outstation.step env s i0).1 is) :
    ∃ pf, StepFrag env s i0 pf ∧ BcastOf pf 1 ∧
      (Outstation.run env s (i0 :: is)).1.lastBroadcast = some 1 ∧
      (Outstation.run env s (i0 :: is)).1.unsolReported = false ∧
      ∀ s' i1 i2, getResponseIin (Outstation.run env s (i0 :: is)).1 = some (s', i1, i2) → i1.testBit 0 = true :=
  @Dnp3.Proofs.C13.mandatory_broadcast_never_dropped_by_unsol_confirm env s i0 is resp isNull retries dl hm hb h1 hq

/-- the broadcast is processed in the wait, the unsolicited confirm is accepted and KEEPS the record
    (`some 0`, before the repair of D16: `none`), and the next response carries IIN1 = 0x81 -/
theorem unsol_confirm_keeps_broadcast_example :
    (Outstation.run {} d16Start d16Inputs).2.map cbs = [[.broadcast 24 .processed], [.unsolConfirmed 0], []] ∧
    (Outstation.run {} d16Start d16Inputs).2.map txFrags = [[], [], [(1, [192, 129, 129, 0, 52, 2, 7, 1, 0, 0])]] ∧
    (Outstation.run {} d16Start [d16Bcast]).1.lastBroadcast = some 0 ∧
    (Outstation.run {} d16Start [d16Bcast]).1.unsolReported = false ∧
    (Outstation.run {} d16Start [d16Bcast, d16Confirm]).1.lastBroadcast = some 0 ∧
    (Outstation.run {} d16Start d16Inputs).1.lastBroadcast = none :=
  @Dnp3.Proofs.C13.unsol_confirm_keeps_broadcast_example 

theorem unsol_confirm_keeps_mandatory_example :
    (Outstation.run {} d16Start d16Inputs1).2.map (fun l => (cbs l).filter (fun c => !Cb.isApp c)) =
      [[.broadcast 24 .processed], [], [.unsolConfirmed 0], [.solWait 1],
       [.solConfirmed 1, .beginConfirm, .endConfirm 0 0 0]] ∧
    (Outstation.run {} d16Start d16Inputs1).2.map txFrags =
      [[], [(1, [224, 129, 129, 0, 52, 2, 7, 1, 0, 0])], [], [(1, [225, 129, 129, 0, 52, 2, 7, 1, 0, 0])], []] ∧
    (List.range 6).map (fun n => (Outstation.run {} d16Start (d16Inputs1.take n)).1.lastBroadcast) =
      [none, some 1, some 1, some 1, some 1, none] :=
  @Dnp3.Proofs.C13.unsol_confirm_keeps_mandatory_example


/-! ## Database component (restated from `Dnp3.Props.Db`) -/

section Db
open Dnp3.DbM Dnp3.DbProofs

/-- `EventBuffer::is_any_full` asks every type exactly once; `EventBufferConfig::max_events` (the capacity
    of the shared event list) adds every type's maximum exactly once -/
theorem is_any_full_each_type_once (t : PtType) :
    Gen.DbT.isAnyFull.count t = 1 ∧ Gen.DbT.maxEventsSum.count t = 1 :=
  @Dnp3.Props.Db.is_any_full_each_type_once t

/-- every `impl Insertable for measurement::X` reads its own maximum and its own counter, changes its own
    counter, and names its own `Event` variant -/
theorem insertable_slots_own (t : PtType) : Gen.DbT.insertable t = ⟨t, t, t, t, t, t, t⟩ :=
  @Dnp3.Props.Db.insertable_slots_own t

/-- `counters_exact`: `total` AND `written` counters equal the per-class / per-type counts of
    records / of `Written` records: an invariant of every operation sequence from a fresh database,
    the overflow of a `Written` record out of the buffer included (false before the repair of D3:
    `insert` left `written` too high) -/
theorem counters_exact (ev : TyVec Nat) (cz : TyVec Bool) (sel : Option Nat) (ops : List DbOpX) :
    CountersExact (runX (Db.newCfg ev cz sel) ops) :=
  @Dnp3.Props.Db.counters_exact ev cz sel ops

/-- … and it is preserved by every single operation from any state that has it -/
theorem counters_exact_preserved (db : Db) (op : DbOpX) (h : CountersExact db) : CountersExact (stepX db op) :=
  @Dnp3.Props.Db.counters_exact_preserved db op h

/-- `class_bits_exact`: after every operation sequence from a fresh database `unwritten_classes`
    does not panic and bit c is set iff the buffer holds a class-c record that is not `Written` -/
theorem class_bits_exact (ev : TyVec Nat) (cz : TyVec Bool) (sel : Option Nat) (ops : List DbOpX) :
    ∃ b1 b2 b3, (runX (Db.newCfg ev cz sel) ops).unwrittenClasses = some (b1, b2, b3) ∧
      (b1 = true ↔ ∃ r ∈ (runX (Db.newCfg ev cz sel) ops).events, r.cls = 1 ∧ r.st ≠ .written) ∧
      (b2 = true ↔ ∃ r ∈ (runX (Db.newCfg ev cz sel) ops).events, r.cls = 2 ∧ r.st ≠ .written) ∧
      (b3 = true ↔ ∃ r ∈ (runX (Db.newCfg ev cz sel) ops).events, r.cls = 3 ∧ r.st ≠ .written) :=
  @Dnp3.Props.Db.class_bits_exact ev cz sel ops

/-- … and after every single operation from any state with exact counters -/
theorem class_bits_exact_step (db : Db) (op : DbOpX) (h : CountersExact db) :
    ∃ b1 b2 b3, (stepX db op).unwrittenClasses = some (b1, b2, b3) ∧
      (b1 = true ↔ ∃ r ∈ (stepX db op).events, r.cls = 1 ∧ r.st ≠ .written) ∧
      (b2 = true ↔ ∃ r ∈ (stepX db op).events, r.cls = 2 ∧ r.st ≠ .written) ∧
      (b3 = true ↔ ∃ r ∈ (stepX db op).events, r.cls = 3 ∧ r.st ≠ .written) :=
  @Dnp3.Props.Db.class_bits_exact_step db op h

/-- `no_counter_underflow`: the checked subtraction `total - written` of `unwritten_classes`
    (`Count::subtract`) never underflows on a database reached from a fresh one by any operation
    sequence (`none` = the panic of the dev build) -/
theorem no_counter_underflow (ev : TyVec Nat) (cz : TyVec Bool) (sel : Option Nat) (ops : List DbOpX) :
    (runX (Db.newCfg ev cz sel) ops).unwrittenClasses ≠ none :=
  @Dnp3.Props.Db.no_counter_underflow ev cz sel ops

/-- … nor after any single operation from any state with exact counters -/
theorem no_counter_underflow_step (db : Db) (op : DbOpX) (h : CountersExact db) :
    (stepX db op).unwrittenClasses ≠ none :=
  @Dnp3.Props.Db.no_counter_underflow_step db op h

/-- the overflow flag: raised by every discard, never lowered by an insert, and after a clear it
    is set iff it was set and some type is still at capacity -/
theorem overflow_flag_interval (db : Db) (idx cls : Nat) (t : PtType) (m : Meas) (dv : Nat) :
    (∀ c d, (db.insert idx cls t m dv).2 = .overflow c d → (db.insert idx cls t m dv).1.isOverflown = true) ∧
    (db.isOverflown = true → (db.insert idx cls t m dv).1.isOverflown = true) ∧
    db.clearWritten.1.isOverflown = (db.isOverflown && db.clearWritten.1.isAnyFull) :=
  @Dnp3.Props.Db.overflow_flag_interval db idx cls t m dv

/-- nothing but insert and clear changes the flag -/
theorem overflow_flag_frame (db : Db) (op : DbOp)
    (h : match op with | .update .. => False | .clear => False | _ => True) :
    (step db op).isOverflown = db.isOverflown :=
  @Dnp3.Props.Db.overflow_flag_frame db op h

/-- with exact totals (always, `total_exact_invariant`) "some type at capacity" is a statement
    about the records in the buffer: some type with a non-zero maximum holds at least that many records -/
theorem any_full_iff (db : Db) (h : TotalExact db) :
    db.isAnyFull = true ↔
      ∃ t, db.evCfg.get t ≠ 0 ∧ db.evCfg.get t ≤ db.events.countP (fun r => r.ty == t) :=
  @Dnp3.Props.Db.any_full_iff db h

/-- an overflow is reported, raises the overflow flag, and discards the OLDEST record of the type -/
theorem overflow_reported_discards_oldest (db : Db) (idx cls : Nat) (t : PtType) (m : Meas) (dv c dId : Nat)
    (ho : Ordered db) (h : (db.insert idx cls t m dv).2 = .overflow c dId) :
    ∃ d ∈ db.events, d.id = dId ∧ d.ty = t ∧ (db.insert idx cls t m dv).1.overflown = true ∧
      ∀ r ∈ db.events, r.ty = t → r ≠ d → d.id < r.id :=
  @Dnp3.Props.Db.overflow_reported_discards_oldest db idx cls t m dv c dId ho h

/-- no type ever holds more events than its configured maximum, and the shared event list never more than
    the sum of the maxima — the capacity the library gives its `VecList` (so that `VecList::add` cannot
    fail, which `EventBuffer::insert` does not check) -/
theorem type_capacity (ev : TyVec Nat) (cz : TyVec Bool) (sel : Option Nat) (ops : List DbOpX) (t : PtType) :
    (runX (Db.newCfg ev cz sel) ops).events.countP (fun r => r.ty == t) ≤ ev.get t :=
  @Dnp3.Props.Db.type_capacity ev cz sel ops t

end Db

end Dnp3.Props.C13
