import Dnp3.Model.TimeSync
import Dnp3.Model.Outstation
import Dnp3.Model.MasterSession
import Dnp3.Model.Pair
import Dnp3.Proofs.C18Link
import Dnp3.Proofs.C18Pair
/-!
# C18 — Time synchronisation sets the outstation's clock to the master's
-/
namespace Dnp3.Props.C18
open Dnp3.TimeSync

/-- LAN procedure: the time handed to the outstation application lags the master's clock at that
    instant by exactly the one-way delay of the RECORD_CURRENT_TIME request, whatever the other
    delays are; so |error| ≤ one-way transmission delay -/
theorem lan_error_is_forward_delay (m0 a gap ts mclock : Nat) (h : lan m0 a gap = some (ts, mclock)) :
    mclock = ts + a ∧ ts = m0 + gap := by
  unfold lan outstationWriteLastRecorded at h
  simp only at h
  split at h
  · cases h
  · rename_i hs
    split at hs
    · cases hs
    · injection hs with hs; injection h with h; injection h with h1 h2; omega

/-- LAN: the write is refused (no clock write) exactly when the computed time exceeds 48 bits -/
theorem lan_overflow_refused (m0 a gap : Nat) : lan m0 a gap = none ↔ m0 + gap > maxTs := by
  unfold lan outstationWriteLastRecorded
  simp only
  split <;> rename_i hs
  · split at hs
    · simp; omega
    · cases hs
  · split at hs
    · cases hs
    · simp; omega

/-- closed form of the master's delay-measure handler -/
theorem handleDelayMeasure_eq (i r c : Nat) :
    handleDelayMeasure i r (some c) =
      if i < r then .error (.badOutstationDelay r)
      else if (i - r) / 2 > maxTs - c then .error .overflow
      else .ok (c + (i - r) / 2) := by
  unfold handleDelayMeasure tsAdd
  by_cases h1 : i < r
  · simp [h1]
  · by_cases h2 : (i - r) / 2 > maxTs - c
    · simp [h1, h2]
    · simp [h1, h2]

/-- what a successful non-LAN run computes -/
theorem nonLan_ok (m0 a p b c ts mclock : Nat) (h : nonLan m0 a p b c p = .ok (ts, mclock)) :
    ts = m0 + (a + p + b) + (a + b) / 2 ∧ mclock = m0 + (a + p + b) + c := by
  unfold nonLan at h
  simp only [handleDelayMeasure_eq] at h
  have hi : a + p + b - p = a + b := by omega
  by_cases h1 : a + p + b < p
  · omega
  · by_cases h2 : (a + p + b - p) / 2 > maxTs - (m0 + (a + p + b))
    · simp [h1, h2] at h
    · simp [h1, h2] at h
      rw [hi] at h
      omega

/-- non-LAN procedure with an honestly reported processing delay: the error is
    ⌊(a+b)/2⌋ − c, independent of the processing delay p -/
theorem nonlan_error_formula (m0 a p b c ts mclock : Nat)
    (h : nonLan m0 a p b c p = .ok (ts, mclock)) :
    (ts : Int) - mclock = ((a + b) / 2 : Nat) - (c : Int) := by
  obtain ⟨h1, h2⟩ := nonLan_ok m0 a p b c ts mclock h
  omega

/-- … hence bounded by the asymmetry of the one-way delays and zero when they are equal -/
theorem nonlan_error_bounded_by_asymmetry (m0 a p b c ts mclock : Nat)
    (h : nonLan m0 a p b c p = .ok (ts, mclock)) :
    ((ts : Int) - mclock ≤ max ((a : Int) - c) ((b : Int) - c)) ∧
    ((mclock : Int) - ts ≤ max ((c : Int) - a) ((c : Int) - b) + 1) ∧
    (a = c → b = c → ts = mclock) := by
  obtain ⟨h1, h2⟩ := nonLan_ok m0 a p b c ts mclock h
  have hd : (a + b) / 2 * 2 ≤ a + b ∧ a + b < (a + b) / 2 * 2 + 2 := by omega
  refine ⟨?_, ?_, ?_⟩
  · omega
  · omega
  · intro h3 h4; subst h3 h4; omega

/-- a reported processing delay exceeding the round trip is rejected -/
theorem sync_fails_when_delay_exceeds_round_trip (interval reported c : Nat)
    (h : interval < reported) :
    handleDelayMeasure interval reported (some c) = .error (.badOutstationDelay reported) := by
  rw [handleDelayMeasure_eq]; simp [h]

/-- a written time that does not fit 48 bits is rejected -/
theorem sync_fails_on_overflow (interval reported c : Nat) (h : reported ≤ interval)
    (ho : (interval - reported) / 2 > maxTs - c) :
    handleDelayMeasure interval reported (some c) = .error .overflow := by
  rw [handleDelayMeasure_eq]
  have : ¬ interval < reported := by omega
  simp [this, ho]

/-- success is reported only when neither failure condition holds -/
theorem delay_measure_ok_iff (i r c ts : Nat) :
    handleDelayMeasure i r (some c) = .ok ts ↔ (r ≤ i ∧ (i - r) / 2 ≤ maxTs - c ∧ ts = c + (i - r) / 2) := by
  rw [handleDelayMeasure_eq]
  by_cases h1 : i < r
  · simp [h1]; omega
  · by_cases h2 : (i - r) / 2 > maxTs - c
    · simp [h1, h2]; omega
    · simp [h1, h2]; constructor
      · intro h; omega
      · intro h; omega

/-- the final reply: success is reported only for an empty reply without NEED_TIME -/
theorem final_reply_success_iff (objectsEmpty needTime : Bool) :
    handleWriteReply objectsEmpty needTime = .ok () ↔ (objectsEmpty = true ∧ needTime = false) := by
  cases objectsEmpty <;> cases needTime <;> simp [handleWriteReply]

/-- the outstation session model (the one in correspondence with the real task) handles
    WRITE g50v3 exactly as `outstationWriteLastRecorded` says: the application receives
    `value + elapsed since RECORD_CURRENT_TIME`, or PARAMETER_ERROR and no clock write on overflow -/
theorem outstation_write_last_recorded_as_modelled (a : Dnp3.Acc) (h : Dnp3.ObjHdr)
    (hg : h.group = 50) (hv : h.var = 3) (hq : h.qual = 0x07) (hc : h.a = 1) (t0 : Nat)
    (hr : a.1.lastRecorded = some t0) :
    (match outstationWriteLastRecorded (Dnp3.u48le h.data) t0 a.1.now with
     | none => Dnp3.handleWriteHeader a h = (a, Dnp3.iin2ParamError)
     | some ts => (Dnp3.handleWriteHeader a h).1.2 = a.2 ++ [.cb (.writeTime ts)] ∧
                  (Dnp3.handleWriteHeader a h).1.1.lastRecorded = none) := by
  unfold outstationWriteLastRecorded Dnp3.handleWriteHeader
  by_cases ho : Dnp3.u48le h.data + (a.1.now - t0) > 281474976710655
  · simp [hg, hv, hq, hc, hr, maxTs, ho]
  · simp [hg, hv, hq, hc, hr, maxTs, ho, Dnp3.emitCb, Dnp3.emit]

example : nonLan 1000 30 7 50 40 7 = .ok (1127, 1127) := rfl
example : lan 1000 25 300 = some (1300, 1325) := rfl


/-! ## A. The master session model (the one in correspondence with the real `MasterTask`) does the
`TimeSync` arithmetic

All statements are for ALL accumulators `a : Master.Acc`, destinations, `uid : Option Nat`
(`none` = the automatic task, `some u` = a user request whose promise is `u`) and responses.
`syncOutcome` maps a `TimeSync.SyncError` to the `Outcome` reported; `tsSuccess` is the success
bookkeeping (`complete a u .ok` resp. `doneAuto .timeSync`).

NOTE on `master_delay_measure_as_modelled`: the hypothesis `hclk` (master clock ≤ 2^48−1, the
quantifier range of the property) is needed: `TimeSync.tsAdd c p` tests `p > maxTs − c` with a
truncated subtraction whereas the session model tests `c + p > maxTs`; for `c = maxTs + 1`,
`interval = reported` the former accepts (`some c`) and the latter reports `tsOverflow`. -/
section Link
open Dnp3 Dnp3.Proofs.C18Link
open Dnp3.Master (handleResponse tsStart tsReportError singleCountHeader NonReadTask TsState onFragment
  parseResponse validateNonRead notifyLinkActivity doUnsolicited taskOnError badIin2 runSingle modAssoc)

/-- A.1: the measuring step of the non-LAN procedure is `TimeSync.handleDelayMeasure` -/
theorem master_delay_measure_as_modelled (a : Master.Acc) (dest : Nat) (uid : Option Nat) (t0 : Nat)
    (r : Master.Resp) (h : ObjHdr) (hs : singleCountHeader r = some h)
    (hg : h.group = 52) (hv : h.var = 2) (hc : h.a = 1)
    (hclk : ∀ c, a.1.clock = some c → c ≤ maxTs) :
    (match handleDelayMeasure (a.1.now - t0) (Master.u16le h.data) a.1.clock with
     | .ok ts => handleResponse a dest (.timeSync uid (.measureDelay (some t0))) r =
                   (a, .ok (some (.timeSync uid (.writeAbs (some ts)))))
     | .error e => handleResponse a dest (.timeSync uid (.measureDelay (some t0))) r =
                   (tsReportError a dest uid (syncOutcome e), .error .unexpectedHeaders)) := by
  unfold handleDelayMeasure handleResponse
  simp only [hs, hg, hv, hc, Option.getD_some, and_self, Bool.not_true, decide_true, Bool.false_eq_true, if_false]
  by_cases h1 : a.1.now - t0 < Master.u16le h.data
  · simp [h1, syncOutcome]
  · simp only [h1, if_false]
    cases hk : a.1.clock with
    | none => simp [syncOutcome]
    | some c =>
      simp only [tsAdd_eq c _ (hclk c hk)]
      by_cases h2 : c + (a.1.now - t0 - Master.u16le h.data) / 2 > 281474976710655
      · simp [h2, syncOutcome]
      · simp [h2]

/-- A.2: anything but a single g52v2 count-of-one header fails the measuring step (an error result
    never continues with a WRITE: see `master_onFragment_reaches_handleResponse`) -/
theorem master_delay_measure_unexpected_objects (a : Master.Acc) (dest : Nat) (uid : Option Nat)
    (t0 : Option Nat) (r : Master.Resp)
    (h : singleCountHeader r = none ∨
         ∃ h, singleCountHeader r = some h ∧ ¬ (h.group = 52 ∧ h.var = 2 ∧ h.a = 1)) :
    handleResponse a dest (.timeSync uid (.measureDelay t0)) r =
      (tsReportError a dest uid (.task .unexpectedHeaders), .error .unexpectedHeaders) := by
  unfold handleResponse
  rcases h with h | ⟨hd, h, hn⟩
  · simp [h]
  · simp [h, hn]

theorem master_final_reply_as_modelled (a : Master.Acc) (dest : Nat) (uid : Option Nat) (st : TsState)
    (r : Master.Resp) (hst : (∃ x, st = .writeAbs x) ∨ (∃ t, st = .writeLast t)) :
    (match handleWriteReply r.raw.isEmpty (decide (r.iin1 &&& 0x10 ≠ 0)) with
     | .ok () => handleResponse a dest (.timeSync uid st) r = (tsSuccess a dest uid, .ok none)
     | .error e => handleResponse a dest (.timeSync uid st) r =
                     (tsReportError a dest uid (syncOutcome e), .error .unexpectedHeaders)) := by
  unfold handleWriteReply handleResponse tsSuccess
  rcases hst with ⟨x, rfl⟩ | ⟨t, rfl⟩
  · by_cases h1 : r.raw.isEmpty <;> by_cases h2 : r.iin1 &&& 0x10 = 0 <;> simp [h1, h2, syncOutcome] <;> cases uid <;> rfl
  · by_cases h1 : r.raw.isEmpty <;> by_cases h2 : r.iin1 &&& 0x10 = 0 <;> simp [h1, h2, syncOutcome] <;> cases uid <;> rfl

theorem master_final_reply_success_iff (a : Master.Acc) (dest : Nat) (uid : Option Nat) (st : TsState)
    (r : Master.Resp) (hst : (∃ x, st = .writeAbs x) ∨ (∃ t, st = .writeLast t)) :
    ((handleResponse a dest (.timeSync uid st) r).2 = .ok none ↔
      handleWriteReply r.raw.isEmpty (decide (r.iin1 &&& 0x10 ≠ 0)) = .ok ()) ∧
    ((handleResponse a dest (.timeSync uid st) r).2 = .ok none ∨
     (handleResponse a dest (.timeSync uid st) r).2 = .error .unexpectedHeaders) := by
  have h := master_final_reply_as_modelled a dest uid st r hst
  cases hw : handleWriteReply r.raw.isEmpty (decide (r.iin1 &&& 0x10 ≠ 0)) with
  | ok u => rw [hw] at h; simp at h; simp [h]
  | error e => rw [hw] at h; simp at h; simp [h]

theorem master_record_current_reply (a : Master.Acc) (dest : Nat) (uid : Option Nat) (t : Nat)
    (r : Master.Resp) :
    handleResponse a dest (.timeSync uid (.recordCurrent (some t))) r =
      if r.raw.isEmpty then (a, .ok (some (.timeSync uid (.writeLast t))))
      else (tsReportError a dest uid (.task .unexpectedHeaders), .error .unexpectedHeaders) := by
  unfold handleResponse
  by_cases h1 : r.raw.isEmpty <;> simp [h1]

theorem u48_wire_round_trip (t : Nat) (ht : t ≤ maxTs) : Dnp3.u48le (Master.le48 t) = t :=
  Dnp3.Proofs.C18Link.u48_wire_round_trip t ht

theorem u48_wire_mod (t : Nat) : Dnp3.u48le (Master.le48 t) = t % 281474976710656 := by
  unfold Dnp3.u48le Master.le48
  simp only [List.getD_cons_zero, List.getD_cons_succ]
  omega

theorem master_write_request_octets (uid : Option Nat) (t : Nat) :
    (NonReadTask.timeSync uid (.writeAbs (some t))).function = 2 ∧
    (NonReadTask.timeSync uid (.writeAbs (some t))).objects = [0x32, 0x01, 0x07, 0x01] ++ Master.le48 t ∧
    (NonReadTask.timeSync uid (.writeLast t)).function = 2 ∧
    (NonReadTask.timeSync uid (.writeLast t)).objects = [0x32, 0x03, 0x07, 0x01] ++ Master.le48 t ∧
    (NonReadTask.timeSync uid (.measureDelay (some t))).function = 23 ∧
    (NonReadTask.timeSync uid (.measureDelay (some t))).objects = [] ∧
    (NonReadTask.timeSync uid (.recordCurrent (some t))).function = 24 ∧
    (NonReadTask.timeSync uid (.recordCurrent (some t))).objects = [] := by
  simp [NonReadTask.function, NonReadTask.objects]

theorem master_start_records_clock (c now : Nat) (clock x : Option Nat) :
    tsStart (some c) now (.recordCurrent x) = some (.recordCurrent (some c)) ∧
    (clock.isSome → tsStart clock now (.measureDelay x) = some (.measureDelay (some now))) ∧
    tsStart (some c) now (.writeAbs none) = some (.writeAbs (some c)) ∧
    tsStart none now (.recordCurrent x) = none ∧
    tsStart none now (.measureDelay x) = none ∧
    tsStart none now (.writeAbs none) = none := by
  refine ⟨rfl, ?_, rfl, rfl, rfl, rfl⟩
  intro h; simp [tsStart, h]

theorem master_start_without_clock_fails (a : Master.Acc) (dest : Nat) (uid : Option Nat) (st : TsState)
    (hc : a.1.clock = none)
    (hst : (∃ x, st = .recordCurrent x) ∨ (∃ x, st = .measureDelay x) ∨ st = .writeAbs none) :
    Master.startTask a dest (.nonRead (.timeSync uid st)) = (tsReportError a dest uid .tsNoSystemTime, none) := by
  unfold Master.startTask
  rcases hst with ⟨x, rfl⟩ | ⟨x, rfl⟩ | rfl <;> simp [tsStart, hc]

/-! ### A.7 step level: which fragments reach `handleResponse` while a time synchronisation waits -/

/-- a solicited FIR+FIN response from `dest` with the expected sequence number and no IIN2 error
    reaches `handleResponse` after `processIin` (and after the CONFIRM it may have asked for:
    `fix:` 506db51) -/
theorem master_onFragment_reaches_handleResponse (a : Master.Acc) (src dest : Nat) (frag : List Nat)
    (uid : Option Nat) (st : TsState) (seq fc0 dl : Nat) (r : Master.Resp)
    (hm : a.1.mode = .waitNonRead dest (.timeSync uid st) seq fc0 dl)
    (hp : parseResponse frag = some r)
    (hv : validateNonRead dest seq src r = .accept)
    (hassoc : (a.1.getAssoc dest).isSome) :
    onFragment a src frag =
      (match handleResponse (modAssoc
          (if r.ctrl.con = true then Master.emit (notifyLinkActivity a src) (.tx dest [0xC0 + seq, 0])
           else notifyLinkActivity a src) dest (·.processIin r.iin1 r.iin2)) dest
          (.timeSync uid st) r with
       | (a2, .error e) => .appDone a2 dest .timeSync fc0 (.error e)
       | (a2, .ok none) => .appDone a2 dest .timeSync fc0 (.ok seq)
       | (a2, .ok (some next)) => runSingle a2 dest next .timeSync fc0) := by
  have h1 := notify_getAssoc' a src dest
  rw [hassoc] at h1
  have h2 : ((if r.ctrl.con = true then Master.emit (notifyLinkActivity a src) (.tx dest [0xC0 + seq, 0])
           else notifyLinkActivity a src).1.getAssoc dest).isSome = true := by
    split
    · exact h1
    · exact h1
  unfold onFragment
  simp only [hm, hp, hv]
  generalize (if r.ctrl.con = true then Master.emit (notifyLinkActivity a src) (.tx dest [0xC0 + seq, 0])
           else notifyLinkActivity a src) = a1 at h2 ⊢
  cases hg : a1.1.getAssoc dest with
  | none => rw [hg] at h2; simp at h2
  | some x =>
    simp only [NonReadTask.taskType]
    generalize handleResponse _ dest (NonReadTask.timeSync uid st) r = res
    obtain ⟨a2, e⟩ := res
    cases e with
    | error e => rfl
    | ok o => cases o <;> rfl

theorem master_onFragment_unrelated (a : Master.Acc) (src dest : Nat) (frag : List Nat)
    (t : NonReadTask) (seq fc0 dl : Nat) (r : Master.Resp)
    (hm : a.1.mode = .waitNonRead dest t seq fc0 dl)
    (hp : parseResponse frag = some r) (hu : r.unsol = false)
    (hne : src ≠ dest ∨ r.ctrl.seq ≠ seq) :
    onFragment a src frag = .waiting (notifyLinkActivity a src) ∧
    (notifyLinkActivity a src).1.mode = .waitNonRead dest t seq fc0 dl ∧
    (notifyLinkActivity a src).2 = a.2 := by
  refine ⟨?_, ?_, ?_⟩
  · unfold onFragment
    simp only [hm, hp]
    have : validateNonRead dest seq src r = .ignore := by
      unfold validateNonRead
      rcases hne with h | h
      · simp [hu, h]
      · by_cases h2 : src = dest <;> simp [hu, h, h2]
    simp only [this]
  · simp [notifyLinkActivity, modAssoc, hm]
  · simp [notifyLinkActivity, modAssoc]

theorem master_onFragment_unsolicited_harmless (a : Master.Acc) (src dest : Nat) (frag : List Nat)
    (t : NonReadTask) (seq fc0 dl : Nat) (r : Master.Resp)
    (hm : a.1.mode = .waitNonRead dest t seq fc0 dl)
    (hp : parseResponse frag = some r) (hu : r.unsol = true) :
    onFragment a src frag = .waiting (doUnsolicited (notifyLinkActivity a src) src r) ∧
    (doUnsolicited (notifyLinkActivity a src) src r).1.mode = .waitNonRead dest t seq fc0 dl ∧
    completions (doUnsolicited (notifyLinkActivity a src) src r).2 = completions a.2 := by
  have hf : Frame a (doUnsolicited (notifyLinkActivity a src) src r) :=
    (frame_modAssoc a src _).trans (doUnsolicited_frame _ src r)
  refine ⟨?_, ?_, hf.2⟩
  · unfold onFragment
    simp only [hm, hp]
    have : validateNonRead dest seq src r = .unsolicited := by simp [validateNonRead, hu]
    simp only [this]
  · rw [hf.1]; exact hm

theorem master_onFragment_rejected (a : Master.Acc) (src dest : Nat) (frag : List Nat)
    (t : NonReadTask) (seq fc0 dl : Nat) (r : Master.Resp) (e : Master.TaskErr)
    (hm : a.1.mode = .waitNonRead dest t seq fc0 dl)
    (hp : parseResponse frag = some r) (hv : validateNonRead dest seq src r = .fail e) :
    onFragment a src frag =
      .appDone (taskOnError (notifyLinkActivity a src) dest (.nonRead t) e) dest t.taskType fc0 (.error e) := by
  unfold onFragment
  simp only [hm, hp, hv]

/-- a solicited FIR+FIN reply with the right sequence number whose IIN2 carries NO_FUNC_CODE_SUPPORT,
    OBJECT_UNKNOWN or PARAMETER_ERROR is a failure -/
theorem master_rejects_iin2_error (dest seq : Nat) (r : Master.Resp)
    (hu : r.unsol = false) (hs : r.ctrl.seq = seq) (hf : r.ctrl.fir = true) (hn : r.ctrl.fin = true)
    (hb : r.iin2 &&& 0x07 ≠ 0) :
    validateNonRead dest seq dest r = .fail (.rejectedIin2 r.iin1 r.iin2) := by
  simp [validateNonRead, hu, hs, hf, hn, badIin2, hb]

/-- a failing time synchronisation started by a user completes that user's promise with the error -/
theorem timeSync_taskOnError (a : Master.Acc) (dest u : Nat) (st : TsState) (e : Master.TaskErr) :
    taskOnError a dest (.nonRead (.timeSync (some u) st)) e = Master.complete a u (.task e) := rfl

-- B ------------------------------------------------------------------------------------------

theorem outstation_record_current_time_as_modelled (a : Dnp3.Acc) (seq fid : Nat) (hs : List ObjHdr)
    (raw : List Nat) :
    Dnp3.handleNonRead a 24 seq fid hs raw =
      some (({ a.1 with lastRecorded := some a.1.now }, a.2),
            some { emptySolicited seq 0 with iin2 := if raw.isEmpty then 0 else iin2ParamError }) := by
  unfold Dnp3.handleNonRead
  simp [objectsAllowed, emptySolicited]

theorem outstation_write_abs_as_modelled (a : Dnp3.Acc) (h : ObjHdr)
    (hg : h.group = 50) (hv : h.var = 1) (hq : h.qual = 0x07) (hc : h.a = 1) :
    Dnp3.handleWriteHeader a h = (emitCb a (.writeTime (Dnp3.u48le h.data)), timeResultIin a.1) := by
  unfold Dnp3.handleWriteHeader
  simp [hg, hv, hq, hc]

/-- the octets of the g52v2 count-of-one object reporting `d` ms -/
def delayObject (d : Nat) : List Nat := [52, 2, 7, 1, d % 256, d / 256 % 256]

theorem outstation_delay_measure_reports_script (a : Dnp3.Acc) (seq fid : Nat) (hs : List ObjHdr)
    (raw : List Nat) :
    Dnp3.handleNonRead a 23 seq fid hs raw =
      some (({ a.1 with solBuf := writeAt a.1.solBuf 4 (delayObject a.1.script.delayMs) }, a.2),
            some { singleResponse seq 0 10 with iin2 := if raw.isEmpty then 0 else iin2ParamError }) := by
  unfold Dnp3.handleNonRead
  simp [objectsAllowed, countOfOne, singleResponse, delayObject]

/-- the response buffer holds exactly that object after the 4-octet header -/
theorem writeAt_object (buf obj : List Nat) (h : 4 + obj.length ≤ buf.length) :
    ((writeAt buf 4 obj).drop 4).take obj.length = obj := by
  unfold writeAt
  have h4 : (buf.take 4).length = 4 := by rw [List.length_take]; omega
  rw [List.append_assoc, List.drop_append_of_le_length (by omega)]
  simp

/-! ### wire lemmas: what one side formats is what the other side parses -/

/-- the master parses the outstation's DELAY_MEASURE reply into the single g52v2 header carrying
    `d mod 65536` -/
theorem delay_reply_wire (c i1 i2 d : Nat) (hu : (AppCtrl.ofNat c).uns = false) :
    parseResponse (c :: 129 :: i1 :: i2 :: delayObject d) =
      some ⟨AppCtrl.ofNat c, false, i1, i2, delayObject d, some [⟨52, 2, 7, 1, 0, [d % 256, d / 256 % 256]⟩]⟩ ∧
    (∀ r, r.objects = some [⟨52, 2, 7, 1, 0, [d % 256, d / 256 % 256]⟩] →
      singleCountHeader r = some ⟨52, 2, 7, 1, 0, [d % 256, d / 256 % 256]⟩) ∧
    Master.u16le [d % 256, d / 256 % 256] = d % 65536 := by
  refine ⟨?_, ?_, ?_⟩
  · simp [parseResponse, hu, delayObject, Master.parseRespObjects, Master.respVarInfo]
  · intro r hr; simp [singleCountHeader, hr]
  · simp [Master.u16le]; omega

/-- an empty solicited response parses to a response without objects -/
theorem empty_reply_wire (c i1 i2 : Nat) (hu : (AppCtrl.ofNat c).uns = false) :
    parseResponse [c, 129, i1, i2] = some ⟨AppCtrl.ofNat c, false, i1, i2, [], some []⟩ := by
  simp [parseResponse, hu, Master.parseRespObjects]

theorem request_ctrl (seq : Nat) (h : seq < 16) : AppCtrl.ofNat (0xC0 + seq) = ⟨true, true, false, false, seq⟩ := by
  revert seq; decide

/-- the outstation parses the master's WRITE of g50v1 / g50v3 into one count-of-one header whose
    data are the six octets written -/
theorem write_request_wire (seq v t : Nat) (hs : seq < 16) (hv : v = 1 ∨ v = 3) :
    parseRequest (Master.requestBytes seq 2 ([0x32, v, 0x07, 0x01] ++ Master.le48 t)) =
      .request ⟨true, true, false, false, seq⟩ 2 (.ok [⟨50, v, 0x07, 1, 0, Master.le48 t⟩])
        ([0x32, v, 0x07, 0x01] ++ Master.le48 t) := by
  rcases hv with rfl | rfl <;>
    simp [parseRequest, Master.requestBytes, request_ctrl seq hs, knownFunction, Master.le48, parseObjects, varInfo,
      isStaticGroup, isEventGroup]

/-- … and the requests without objects -/
theorem empty_request_wire (seq f : Nat) (hs : seq < 16) (hf : f = 23 ∨ f = 24) :
    parseRequest (Master.requestBytes seq f []) = .request ⟨true, true, false, false, seq⟩ f (.ok []) [] := by
  rcases hf with rfl | rfl <;>
    simp [parseRequest, Master.requestBytes, request_ctrl seq hs, knownFunction, parseObjects]

/-! ## C. composition -/

/-- every reply to a time synchronisation step is handled in one of three ways -/
theorem master_timeSync_outcomes (a : Master.Acc) (dest : Nat) (uid : Option Nat) (st : TsState)
    (r : Master.Resp) :
    handleResponse a dest (.timeSync uid st) r = (tsSuccess a dest uid, .ok none) ∨
    (∃ st', handleResponse a dest (.timeSync uid st) r = (a, .ok (some (.timeSync uid st')))) ∨
    (∃ o, o ≠ .ok ∧
      handleResponse a dest (.timeSync uid st) r = (tsReportError a dest uid o, .error .unexpectedHeaders)) := by
  have fin : ∀ st, ((∃ x, st = TsState.writeAbs x) ∨ (∃ t, st = TsState.writeLast t)) →
      handleResponse a dest (.timeSync uid st) r = (tsSuccess a dest uid, .ok none) ∨
      (∃ st', handleResponse a dest (.timeSync uid st) r = (a, .ok (some (.timeSync uid st')))) ∨
      (∃ o, o ≠ .ok ∧
        handleResponse a dest (.timeSync uid st) r = (tsReportError a dest uid o, .error .unexpectedHeaders)) := by
    intro st hst
    have h := master_final_reply_as_modelled a dest uid st r hst
    cases hw : handleWriteReply r.raw.isEmpty (decide (r.iin1 &&& 0x10 ≠ 0)) with
    | ok u => rw [hw] at h; exact Or.inl h
    | error e => rw [hw] at h; exact Or.inr (Or.inr ⟨_, syncOutcome_ne_ok e, h⟩)
  cases st with
  | writeAbs x => exact fin _ (Or.inl ⟨x, rfl⟩)
  | writeLast t => exact fin _ (Or.inr ⟨t, rfl⟩)
  | recordCurrent x =>
    unfold handleResponse
    simp only
    split
    · exact Or.inr (Or.inr ⟨.task .unexpectedHeaders, by simp, rfl⟩)
    · exact Or.inr (Or.inl ⟨_, rfl⟩)
  | measureDelay t0 =>
    unfold handleResponse
    simp only
    split
    · exact Or.inr (Or.inr ⟨.task .unexpectedHeaders, by simp, rfl⟩)
    · split
      · exact Or.inr (Or.inr ⟨.task .unexpectedHeaders, by simp, rfl⟩)
      · split
        · exact Or.inr (Or.inr ⟨.tsBadDelay _, by simp, rfl⟩)
        · split
          · exact Or.inr (Or.inr ⟨.tsNoSystemTime, by simp, rfl⟩)
          · split
            · exact Or.inr (Or.inr ⟨.tsOverflow, by simp, rfl⟩)
            · exact Or.inr (Or.inl ⟨_, rfl⟩)

/-- only the success branch completes a promise with `Ok` -/
theorem no_ok_unless_success (a : Master.Acc) (dest : Nat) (uid : Option Nat) (st : TsState)
    (r : Master.Resp) (hne : handleResponse a dest (.timeSync uid st) r ≠ (tsSuccess a dest uid, .ok none))
    (u : Nat) (hu : (u, Master.Outcome.ok) ∈ completions (handleResponse a dest (.timeSync uid st) r).1.2) :
    (u, Master.Outcome.ok) ∈ completions a.2 := by
  rcases master_timeSync_outcomes a dest uid st r with h | ⟨st', h⟩ | ⟨o, ho, h⟩
  · exact absurd h hne
  · rw [h] at hu; exact hu
  · rw [h] at hu
    simp only [tsReportError_outs, completions_append] at hu
    rw [List.mem_append] at hu
    rcases hu with hu | hu
    · exact hu
    · cases uid with
      | none => simp [completions] at hu
      | some v =>
        have : completions [Master.MOut.complete v o] = [(v, o)] := rfl
        rw [this] at hu
        simp at hu
        exact absurd hu.2.symm ho

/-- C1 (LAN), handler-level timeline over the REAL model functions, for ALL master / outstation
    accumulators, `base T0 dA T3`.  Quantified: the master accumulators at the start (`m0`) and when the
    empty reply is handled (`m1`), the outstation accumulators when RECORD_CURRENT_TIME (`o1`, at
    `T0 + dA`) and when the WRITE (`o3`, at `T3`) are handled; `hrec` says the record made in step (2) is
    still there (it is only touched by RECORD_CURRENT_TIME and WRITE g50v3).  Named `_partial` because the
    transport of the fragments between the two `handle*` calls (session dispatch, wire) is taken from
    the wire lemmas and A.7 and not from a run of the pair model. -/
theorem lan_timeline_partial (base T0 dA T3 : Nat) (uid : Option Nat) (dest : Nat)
    (m0 m1 : Master.Acc) (o1 o3 : Dnp3.Acc) (seq1 fid1 seqW : Nat) (r1 : Master.Resp)
    (hm0 : m0.1.clock = some (base + T0))
    (ho1 : o1.1.now = T0 + dA)
    (hr1 : r1.raw = [])
    (ho3 : o3.1.now = T3) (hrec : o3.1.lastRecorded = some (T0 + dA)) (hT3 : T0 + dA ≤ T3)
    (hfit : base + T0 ≤ maxTs) (hseq : seqW < 16) :
    ∃ (st1 : TsState) (next : NonReadTask) (h : ObjHdr),
      -- (1) the master starts: the task records its clock and sends RECORD_CURRENT_TIME without objects
      Master.startTask m0 dest (.nonRead (.timeSync uid (.recordCurrent none))) =
        (m0, some (.nonRead (.timeSync uid st1))) ∧
      (NonReadTask.timeSync uid st1).function = 24 ∧ (NonReadTask.timeSync uid st1).objects = [] ∧
      -- (2) the outstation records T0 + dA and answers with an empty response, no callback
      Dnp3.handleNonRead o1 24 seq1 fid1 [] [] =
        some (({ o1.1 with lastRecorded := some (T0 + dA) }, o1.2), some (emptySolicited seq1 0)) ∧
      -- (3) on the empty reply the master continues with WRITE g50v3 carrying base + T0
      handleResponse m1 dest (.timeSync uid st1) r1 = (m1, .ok (some next)) ∧
      next.function = 2 ∧ next.objects = [0x32, 0x03, 0x07, 0x01] ++ Master.le48 (base + T0) ∧
      -- (4) which the outstation parses into one header
      parseRequest (Master.requestBytes seqW next.function next.objects) =
        .request ⟨true, true, false, false, seqW⟩ 2 (.ok [h]) next.objects ∧
      -- (5) the WRITE arrives at T3: the application is handed base + T0 + (T3 − (T0 + dA)) …
      (base + T0 + (T3 - (T0 + dA)) ≤ maxTs →
        Dnp3.handleWriteHeader o3 h =
          (emitCb ({ o3.1 with lastRecorded := none }, o3.2) (.writeTime (base + T0 + (T3 - (T0 + dA)))),
           timeResultIin o3.1) ∧
        -- … while the master's clock is base + T3: the error is exactly the forward delay dA
        base + T3 = (base + T0 + (T3 - (T0 + dA))) + dA ∧
        lan (base + T0) dA (T3 - (T0 + dA)) = some (base + T0 + (T3 - (T0 + dA)), base + T3)) ∧
      -- … or, if that does not fit 48 bits, nothing is written and PARAMETER_ERROR is returned
      (base + T0 + (T3 - (T0 + dA)) > maxTs →
        Dnp3.handleWrite o3 seqW [h] = (o3, emptySolicited seqW iin2ParamError)) := by
  refine ⟨.recordCurrent (some (base + T0)), .timeSync uid (.writeLast (base + T0)),
    ⟨50, 3, 0x07, 1, 0, Master.le48 (base + T0)⟩, ?_, rfl, rfl, ?_, ?_, rfl, rfl, ?_, ?_, ?_⟩
  · simp [Master.startTask, tsStart, hm0]
  · rw [outstation_record_current_time_as_modelled, ho1]
    simp [emptySolicited]
  · rw [master_record_current_reply]; simp [hr1]
  · exact write_request_wire seqW 3 (base + T0) hseq (Or.inr rfl)
  · intro hf
    refine ⟨?_, by omega, ?_⟩
    · unfold Dnp3.handleWriteHeader
      simp only [hrec, u48_wire_round_trip _ hfit, ho3]
      have : ¬ base + T0 + (T3 - (T0 + dA)) > 281474976710655 := by unfold maxTs at hf; omega
      simp [this]
    · unfold lan outstationWriteLastRecorded
      have e2 : base + T0 + dA + (T3 - (T0 + dA)) = base + T3 := by omega
      have : ¬ base + T0 + (T3 - (T0 + dA)) > maxTs := by omega
      simp only [Nat.sub_zero, this, if_false, e2]
  · intro hf
    unfold Dnp3.handleWrite Dnp3.handleWriteHeader
    simp only [List.foldl, hrec, u48_wire_round_trip _ hfit, ho3]
    have : base + T0 + (T3 - (T0 + dA)) > 281474976710655 := by unfold maxTs at hf; omega
    simp [this]

/-- C1 (non-LAN), handler-level timeline: honest report `p < 65536` of the processing delay,
    one-way delays `dA` (DELAY_MEASURE), `dB` (reply), `dC` (WRITE).  `hr2` is what the master parses
    from the reply of step (2) (`delay_reply_wire`).  `_partial` for the same reason as the LAN one. -/
theorem nonlan_timeline_partial (base T0 dA p dB dC : Nat) (uid : Option Nat) (dest : Nat)
    (m0 m2 : Master.Acc) (o1 o3 : Dnp3.Acc) (seq1 fid1 seqW : Nat) (r2 : Master.Resp)
    (hm0c : m0.1.clock.isSome) (hm0n : m0.1.now = T0)
    (ho1 : o1.1.script.delayMs = p) (hp : p < 65536)
    (hm2n : m2.1.now = T0 + (dA + p + dB)) (hm2c : m2.1.clock = some (base + T0 + (dA + p + dB)))
    (hr2 : r2.objects = some [⟨52, 2, 7, 1, 0, [p % 256, p / 256 % 256]⟩])
    (hfit : base + T0 + (dA + p + dB) + (dA + dB) / 2 ≤ maxTs) (hseq : seqW < 16) :
    ∃ (st1 : TsState) (ts mclock : Nat) (next : NonReadTask) (h : ObjHdr),
      -- (1) the master starts at T0: the task records the send time, DELAY_MEASURE without objects
      Master.startTask m0 dest (.nonRead (.timeSync uid (.measureDelay none))) =
        (m0, some (.nonRead (.timeSync uid st1))) ∧
      (NonReadTask.timeSync uid st1).function = 23 ∧ (NonReadTask.timeSync uid st1).objects = [] ∧
      -- (2) the outstation reports its processing delay p (honestly) in g52v2
      Dnp3.handleNonRead o1 23 seq1 fid1 [] [] =
        some (({ o1.1 with solBuf := writeAt o1.1.solBuf 4 (delayObject p) }, o1.2),
              some (singleResponse seq1 0 10)) ∧
      -- (3) the reply reaches the master dA + p + dB later; the arithmetic model gives (ts, mclock)
      nonLan (base + T0) dA p dB dC p = .ok (ts, mclock) ∧
      handleResponse m2 dest (.timeSync uid st1) r2 = (m2, .ok (some next)) ∧
      next = .timeSync uid (.writeAbs (some ts)) ∧
      -- (4) WRITE g50v1 carrying ts, as the outstation parses it
      parseRequest (Master.requestBytes seqW next.function next.objects) =
        .request ⟨true, true, false, false, seqW⟩ 2 (.ok [h]) next.objects ∧
      -- (5) the application is handed ts when the master's clock is mclock = base + T0 + dA+p+dB+dC
      Dnp3.handleWriteHeader o3 h = (emitCb o3 (.writeTime ts), timeResultIin o3.1) ∧
      ts = base + T0 + (dA + p + dB) + (dA + dB) / 2 ∧
      mclock = base + (T0 + dA + p + dB + dC) ∧
      -- (6) error = ⌊(dA+dB)/2⌋ − dC, bounded by the asymmetry, zero when the delays are equal
      (ts : Int) - mclock = ((dA + dB) / 2 : Nat) - (dC : Int) ∧
      ((ts : Int) - mclock ≤ max ((dA : Int) - dC) ((dB : Int) - dC)) ∧
      ((mclock : Int) - ts ≤ max ((dC : Int) - dA) ((dC : Int) - dB) + 1) ∧
      (dA = dC → dB = dC → ts = mclock) := by
  have hi : dA + p + dB - p = dA + dB := by omega
  have hnl : nonLan (base + T0) dA p dB dC p =
      .ok (base + T0 + (dA + p + dB) + (dA + dB) / 2, base + T0 + (dA + p + dB) + dC) := by
    unfold nonLan
    simp only [handleDelayMeasure_eq, hi]
    have h1 : ¬ dA + p + dB < p := by omega
    have h2 : ¬ (dA + dB) / 2 > maxTs - (base + T0 + (dA + p + dB)) := by omega
    simp [h1, h2]
  have hu16 : Master.u16le [p % 256, p / 256 % 256] = p := by
    simp [Master.u16le]; omega
  have hsc : singleCountHeader r2 = some ⟨52, 2, 7, 1, 0, [p % 256, p / 256 % 256]⟩ := by
    simp [singleCountHeader, hr2]
  have hts : base + T0 + (dA + p + dB) + (dA + dB) / 2 ≤ maxTs := hfit
  refine ⟨.measureDelay (some T0), _, _, .timeSync uid (.writeAbs (some (base + T0 + (dA + p + dB) + (dA + dB) / 2))),
    ⟨50, 1, 0x07, 1, 0, Master.le48 (base + T0 + (dA + p + dB) + (dA + dB) / 2)⟩,
    ?_, rfl, rfl, ?_, hnl, ?_, rfl, ?_, ?_, rfl, by omega, ?_⟩
  · simp [Master.startTask, tsStart, hm0c, hm0n]
  · rw [outstation_delay_measure_reports_script, ho1]; simp [singleResponse]
  · have h := master_delay_measure_as_modelled m2 dest uid T0 r2 _ hsc rfl rfl rfl
      (by intro c hc; rw [hm2c] at hc; cases hc; omega)
    simp only [hu16, hm2n, hm2c] at h
    have hi2 : T0 + (dA + p + dB) - T0 = dA + p + dB := by omega
    rw [hi2, handleDelayMeasure_eq] at h
    have h1 : ¬ dA + p + dB < p := by omega
    have h2 : ¬ (dA + dB) / 2 > maxTs - (base + T0 + (dA + p + dB)) := by omega
    simp only [h1, if_false, hi, h2] at h
    exact h
  · exact write_request_wire seqW 1 _ hseq (Or.inl rfl)
  · rw [outstation_write_abs_as_modelled o3 _ rfl rfl rfl rfl]
    simp only [u48_wire_round_trip _ hts]
  · have h3 := nonlan_error_formula _ _ _ _ _ _ _ hnl
    have h4 := nonlan_error_bounded_by_asymmetry _ _ _ _ _ _ _ hnl
    exact ⟨h3, h4.1, h4.2.1, h4.2.2⟩

/-- PARAMETER_ERROR survives the OR with the other IIN2 bits of the response -/
theorem paramError_survives (x : Nat) : (iin2ParamError ||| x) &&& 0x07 ≠ 0 := by
  intro h
  have h2 := congrArg (fun n => n.testBit 2) h
  have e1 : Nat.testBit 4 2 = true := by decide
  have e2 : Nat.testBit 7 2 = true := by decide
  simp [Nat.testBit_and, Nat.testBit_or, iin2ParamError, e1, e2] at h2

theorem sync_failure_conditions_reported (a : Master.Acc) (dest : Nat) (uid : Option Nat) (r : Master.Resp) :
    -- (i) the outstation reports a processing delay exceeding the round trip
    (∀ t0 h, singleCountHeader r = some h → h.group = 52 → h.var = 2 → h.a = 1 →
      a.1.now - t0 < Master.u16le h.data →
      handleResponse a dest (.timeSync uid (.measureDelay (some t0))) r =
        (tsReportError a dest uid (.tsBadDelay (Master.u16le h.data)), .error .unexpectedHeaders)) ∧
    -- (ii) NEED_TIME is still indicated in the reply to the WRITE
    (∀ st, ((∃ x, st = TsState.writeAbs x) ∨ (∃ t, st = TsState.writeLast t)) →
      r.raw.isEmpty = true → r.iin1 &&& 0x10 ≠ 0 →
      handleResponse a dest (.timeSync uid st) r =
        (tsReportError a dest uid .tsStillNeedsTime, .error .unexpectedHeaders)) ∧
    -- (iii) unexpected objects in a reply that must be empty …
    (∀ st, ((∃ x, st = TsState.writeAbs x) ∨ (∃ t, st = TsState.writeLast t) ∨ (∃ x, st = TsState.recordCurrent x)) →
      r.raw.isEmpty = false →
      handleResponse a dest (.timeSync uid st) r =
        (tsReportError a dest uid (.task .unexpectedHeaders), .error .unexpectedHeaders)) ∧
    -- … or anything but one g52v2 in the reply to DELAY_MEASURE
    (∀ t0, (singleCountHeader r = none ∨
        ∃ h, singleCountHeader r = some h ∧ ¬ (h.group = 52 ∧ h.var = 2 ∧ h.a = 1)) →
      handleResponse a dest (.timeSync uid (.measureDelay t0)) r =
        (tsReportError a dest uid (.task .unexpectedHeaders), .error .unexpectedHeaders)) ∧
    -- (iv) the time to write does not fit 48 bits (non-LAN; for LAN see `lan_timeline`,
    --      `lan_overflow_reported`)
    (∀ t0 h c, singleCountHeader r = some h → h.group = 52 → h.var = 2 → h.a = 1 →
      Master.u16le h.data ≤ a.1.now - t0 → a.1.clock = some c →
      c + (a.1.now - t0 - Master.u16le h.data) / 2 > maxTs →
      handleResponse a dest (.timeSync uid (.measureDelay (some t0))) r =
        (tsReportError a dest uid .tsOverflow, .error .unexpectedHeaders)) := by
  refine ⟨?_, ?_, ?_, ?_, ?_⟩
  · intro t0 h hs hg hv hc hlt
    unfold handleResponse
    simp [hs, hg, hv, hc, hlt]
  · intro st hst he hn
    have h := master_final_reply_as_modelled a dest uid st r hst
    have hd : decide (r.iin1 &&& 0x10 ≠ 0) = true := by simp [hn]
    rw [hd, he] at h
    exact h
  · intro st hst he
    rcases hst with ⟨x, rfl⟩ | ⟨t, rfl⟩ | ⟨x, rfl⟩ <;> unfold handleResponse <;> simp [he]
  · intro t0 h
    exact master_delay_measure_unexpected_objects a dest uid t0 r h
  · intro t0 h c hs hg hv hc hle hk ho
    unfold handleResponse
    have : ¬ a.1.now - t0 < Master.u16le h.data := by omega
    unfold maxTs at ho
    simp [hs, hg, hv, hc, this, hk, ho]

/-- a reported failure sends nothing and completes the promise (if any) with the error -/
theorem tsReportError_sends_nothing (a : Master.Acc) (dest : Nat) (uid : Option Nat) (o : Master.Outcome) :
    Master.txFrags (tsReportError a dest uid o).2 = Master.txFrags a.2 ∧
    completions (tsReportError a dest uid o).2 =
      completions a.2 ++ (match uid with | none => [] | some u => [(u, o)]) := by
  rw [tsReportError_outs]
  cases uid <;> simp [Master.txFrags, completions]

/-- LAN overflow on the master side: the outstation's PARAMETER_ERROR reply fails the task and the
    user's promise completes with that error; no further request is sent -/
theorem lan_overflow_reported (a : Master.Acc) (dest u : Nat) (frag : List Nat) (st : TsState)
    (seq fc0 dl : Nat) (r : Master.Resp) (x : Nat)
    (hm : a.1.mode = .waitNonRead dest (.timeSync (some u) st) seq fc0 dl)
    (hp : parseResponse frag = some r)
    (hu : r.unsol = false) (hs : r.ctrl.seq = seq) (hf : r.ctrl.fir = true) (hn : r.ctrl.fin = true)
    (hi : r.iin2 = iin2ParamError ||| x) :
    onFragment a dest frag =
      .appDone (Master.complete (notifyLinkActivity a dest) u (.task (.rejectedIin2 r.iin1 r.iin2)))
        dest .timeSync fc0 (.error (.rejectedIin2 r.iin1 r.iin2)) := by
  have hv := master_rejects_iin2_error dest seq r hu hs hf hn (by rw [hi]; exact paramError_survives x)
  rw [master_onFragment_rejected a dest dest frag _ seq fc0 dl r _ hm hp hv]
  rfl

/-! ### concrete instances (every theorem above with hypotheses has one) -/

/-- a master with the association 1024 whose clock reads 5000 at virtual time 180, waiting for the
    reply (sequence number 3) to a time-synchronisation request of user promise 7 in state `st` -/
def exMaster (st : TsState) : Master.Acc :=
  ({ now := 180, clock := some 5000, assocs := [Master.Assoc.new 1024 {} 0], ring := [1024],
     mode := .waitNonRead 1024 (.timeSync (some 7) st) 3 23 5100, live := 1 }, [])

/-- the parsed reply `C3 81 iin1 iin2` + g52v2 reporting `d` ms -/
def exDelayResp (iin1 iin2 d : Nat) : Master.Resp :=
  ⟨⟨true, true, false, false, 3⟩, false, iin1, iin2, delayObject d, some [⟨52, 2, 7, 1, 0, [d % 256, d / 256 % 256]⟩]⟩

/-- the parsed empty reply `C3 81 iin1 iin2` -/
def exEmptyResp (iin1 iin2 : Nat) : Master.Resp := ⟨⟨true, true, false, false, 3⟩, false, iin1, iin2, [], some []⟩

example : parseResponse ([0xC3, 129, 0, 0] ++ delayObject 20) = some (exDelayResp 0 0 20) := rfl
example : parseResponse [0xC3, 129, 0x10, 0] = some (exEmptyResp 0x10 0) := rfl

-- A.1: round trip 80 ms, 20 ms reported: WRITE 5000 + 30
example : handleResponse (exMaster (.measureDelay (some 100))) 1024 (.timeSync (some 7) (.measureDelay (some 100)))
      (exDelayResp 0 0 20) =
    (exMaster (.measureDelay (some 100)), .ok (some (.timeSync (some 7) (.writeAbs (some 5030))))) :=
  master_delay_measure_as_modelled (exMaster (.measureDelay (some 100))) 1024 (some 7) 100 (exDelayResp 0 0 20)
    _ rfl rfl rfl rfl (by intro c h; cases h; decide)
-- A.1, failing: 200 ms reported for a round trip of 80 ms
example : handleResponse (exMaster (.measureDelay (some 100))) 1024 (.timeSync (some 7) (.measureDelay (some 100)))
      (exDelayResp 0 0 200) =
    (tsReportError (exMaster (.measureDelay (some 100))) 1024 (some 7) (.tsBadDelay 200), .error .unexpectedHeaders) :=
  master_delay_measure_as_modelled (exMaster (.measureDelay (some 100))) 1024 (some 7) 100 (exDelayResp 0 0 200)
    _ rfl rfl rfl rfl (by intro c h; cases h; decide)
-- A.2: an empty reply to DELAY_MEASURE
example := master_delay_measure_unexpected_objects (exMaster (.measureDelay (some 100))) 1024 (some 7) (some 100)
  (exEmptyResp 0 0) (Or.inl rfl)
-- A.3: the final reply, with and without NEED_TIME
example : handleResponse (exMaster (.writeLast 5000)) 1024 (.timeSync (some 7) (.writeLast 5000)) (exEmptyResp 0 0) =
    (Master.complete (exMaster (.writeLast 5000)) 7 .ok, .ok none) :=
  master_final_reply_as_modelled _ 1024 (some 7) (.writeLast 5000) (exEmptyResp 0 0) (Or.inr ⟨5000, rfl⟩)
example : handleResponse (exMaster (.writeLast 5000)) 1024 (.timeSync (some 7) (.writeLast 5000)) (exEmptyResp 0x10 0) =
    (Master.complete (exMaster (.writeLast 5000)) 7 .tsStillNeedsTime, .error .unexpectedHeaders) :=
  master_final_reply_as_modelled _ 1024 (some 7) (.writeLast 5000) (exEmptyResp 0x10 0) (Or.inr ⟨5000, rfl⟩)
example := master_final_reply_success_iff (exMaster (.writeAbs (some 5030))) 1024 (some 7) (.writeAbs (some 5030))
  (exEmptyResp 0 0) (Or.inl ⟨_, rfl⟩)
example : Dnp3.u48le (Master.le48 1700000000000) = 1700000000000 := u48_wire_round_trip _ (by decide)
example := master_start_without_clock_fails (({ now := 5 } : Master.MState), []) 1024 (some 7) (.recordCurrent none) rfl
  (Or.inl ⟨none, rfl⟩)
-- A.7
example := master_onFragment_reaches_handleResponse (exMaster (.writeLast 5000)) 1024 1024 [0xC3, 129, 0, 0] (some 7)
  (.writeLast 5000) 3 23 5100 (exEmptyResp 0 0) rfl rfl rfl rfl
example := master_onFragment_unrelated (exMaster (.writeLast 5000)) 1024 1024 [0xC4, 129, 0, 0]
  (.timeSync (some 7) (.writeLast 5000)) 3 23 5100 ⟨⟨true, true, false, false, 4⟩, false, 0, 0, [], some []⟩ rfl rfl rfl
  (Or.inr (by decide))
example := master_onFragment_unsolicited_harmless (exMaster (.writeLast 5000)) 1024 1024 [0xF4, 130, 0, 0]
  (.timeSync (some 7) (.writeLast 5000)) 3 23 5100 ⟨⟨true, true, true, true, 4⟩, true, 0, 0, [], some []⟩ rfl rfl rfl
example := master_onFragment_rejected (exMaster (.writeLast 5000)) 1024 1024 [0xC3, 129, 0, 4]
  (.timeSync (some 7) (.writeLast 5000)) 3 23 5100 (exEmptyResp 0 4) (.rejectedIin2 0 4) rfl rfl rfl
example := master_rejects_iin2_error 1024 3 (exEmptyResp 0 4) rfl rfl rfl rfl (by decide)
example := lan_overflow_reported (exMaster (.writeLast 5000)) 1024 7 [0xC3, 129, 0, 4] (.writeLast 5000) 3 23 5100
  (exEmptyResp 0 4) 0 rfl rfl rfl rfl rfl rfl rfl
-- B
example := outstation_write_abs_as_modelled ((Outstation.start {} 10).1, []) ⟨50, 1, 7, 1, 0, Master.le48 5030⟩ rfl rfl rfl rfl
example : ((writeAt (List.replicate 2048 0) 4 (delayObject 20)).drop 4).take 6 = delayObject 20 :=
  writeAt_object (List.replicate 2048 0) (delayObject 20) (by rw [List.length_replicate]; decide)
example := delay_reply_wire 0xC3 0 0 20 (by decide)
example := empty_reply_wire 0xC3 0 0 (by decide)
example := request_ctrl 3 (by decide)
example := write_request_wire 3 3 5000 (by decide) (Or.inr rfl)
example := empty_request_wire 3 24 (by decide) (Or.inr rfl)
-- C
example := no_ok_unless_success (exMaster (.writeLast 5000)) 1024 (some 7) (.writeLast 5000) (exEmptyResp 0x10 0)
  (by intro h; cases h)
/-- the outstation of the pair model's start configuration at virtual time `t` -/
def exOutstation (t : Nat) (rec : Option Nat) : Dnp3.Acc :=
  ({ (Outstation.start {} 10).1 with now := t, lastRecorded := rec }, [])
-- LAN: base 1000, sent at 0, forward delay 30, WRITE arrives at 120: written 1090, master clock 1120
example := lan_timeline_partial 1000 0 30 120 (some 7) 1024
  (({ clock := some 1000 } : Master.MState), []) (exMaster (.recordCurrent (some 1000)))
  (exOutstation 30 none) (exOutstation 120 (some 30)) 0 0 1 (exEmptyResp 0x80 0)
  rfl rfl rfl rfl rfl (by decide) (by decide) (by decide)
-- non-LAN: delays 30 / 50 / 40, processing 7 ms honestly reported
example := nonlan_timeline_partial 1000 0 30 7 50 40 (some 7) 1024
  (({ clock := some 1000 } : Master.MState), [])
  (({ now := 87, clock := some 1087 } : Master.MState), [])
  ({ (Outstation.start {} 10).1 with now := 30, script := { delayMs := 7 } }, []) (exOutstation 127 none) 0 0 1
  (exDelayResp 0x80 0 7) rfl rfl rfl (by decide) rfl rfl rfl (by decide) (by decide)
example := (sync_failure_conditions_reported (exMaster (.measureDelay (some 100))) 1024 (some 7) (exDelayResp 0 0 200)).1
  100 _ rfl rfl rfl rfl (by decide)

end Link


/-! ## C2. The LAN procedure over the PAIR model (both session models joined by the wire)

Quantified: the master clock offset `base`, the one-way delays `a` (master → outstation until the
WRITE is sent), `b` (outstation → master) and `c` (master → outstation for the WRITE), all positive,
with `a + b` and `c + b` below the response time-out (5000 ms) and the written time fitting 48 bits.
NOT quantified (hence `_partial`): the start configuration is the canonical quiet one
(`Pair.start {} 10 {} 2048 { dis := 0, int := 0, en := 0 }`: default outstation, no automatic
start-up tasks, no unsolicited responses), the request is user promise 7, and no unrelated traffic
is interleaved (for that see `master_onFragment_unrelated` / `master_onFragment_unsolicited_harmless`).
The master's clock in the pair is `Pair.masterClock base now = min (base + now) (2^48-1)`; `hfit` keeps it
unsaturated at the instants at which it is read (`base ≤ 2^48-1` here, `base + (a+b) ≤ 2^48-1` for non-LAN). -/
section PairLan
open Dnp3 Dnp3.Pair Dnp3.Proofs.C18Pair

/-- the complete observable trace of the scenario: RECORD_CURRENT_TIME goes out at 0 (master clock
    `base`), reaches the outstation at `a`, the empty reply reaches the master at `a + b`, WRITE g50v3
    carrying `base` reaches the outstation at `a + b + c`, which hands `base + (b + c)` to the
    application, and the final reply completes promise 7 with `Ok` at `a + b + c + b` -/
theorem lan_pair_trace_partial (base a b c : Nat) (ha : 0 < a) (hb : 0 < b) (hc : 0 < c)
    (h1 : a + b < 5000) (h2 : c + b < 5000) (hfit : base + (b + c) ≤ TimeSync.maxTs) :
    (Pair.run (Pair.start {} 10 {} 2048 { dis := 0, int := 0, en := 0 } (some base) a b).1
      [.user (.nonRead (.timeSync (some 7) (.recordCurrent none))), .setDelay true c,
       .tick a, .tick b, .tick c, .tick b]).2 =
      [ [.m [.taskStart 1024 .timeSync 24 0, .tx 1024 [192, 24]]],
        [],
        [.time a, .m [], .o [], .delivered true [⟨some a, 15, .frag 1 1024 [192, 24]⟩],
         .o [.tx 1 [192, 129, 128, 0]]],
        [.time (a + b), .m [], .o [], .delivered false [⟨some (a + b), 17, .frag 1024 1 [192, 129, 128, 0]⟩],
         .m [.tx 1024 ([193, 2, 50, 3, 7, 1] ++ Master.le48 base)]],
        [.time (a + b + c), .m [], .o [],
         .delivered true [⟨some (a + b + c), 25, .frag 1 1024 ([193, 2, 50, 3, 7, 1] ++ Master.le48 base)⟩],
         .o [.cb (.writeTime (base + (b + c))), .tx 1 [193, 129, 128, 0]]],
        [.time (a + b + c + b), .m [], .o [],
         .delivered false [⟨some (a + b + c + b), 17, .frag 1024 1 [193, 129, 128, 0]⟩],
         .m [.complete 7 .ok, .taskSuccess 1024 .timeSync 24 1, .taskStart 1024 .clearRestartBit 2 2,
             .tx 1024 [194, 2, 80, 1, 0, 7, 7, 0]]] ] := by
  have h := lan_pair_trace base a b c ha hb hc h1 h2 (by unfold TimeSync.maxTs at hfit; exact hfit)
  have e : a + b + c - a = b + c := by omega
  have h0 : mclk base 0 = base := mclk_eq base 0 (by unfold TimeSync.maxTs at hfit; omega)
  have hs := start_eq base a b
  unfold acfg at hs
  rw [hs]
  simp only [lanOps, Nat.zero_add, e, wfrag, h0] at h
  exact h

/-- C2 (LAN): exactly one time is handed to the outstation application, `T = base + (b + c)`, at
    virtual time `a + b + c`, i.e. when the master's clock reads `base + (a + b + c) = T + a`: the
    error is exactly the forward delay `a`; and the master reports success (promise 7 completes with
    `Ok`, and with nothing else) -/
theorem lan_pair_end_to_end_partial (base a b c : Nat) (ha : 0 < a) (hb : 0 < b) (hc : 0 < c)
    (h1 : a + b < 5000) (h2 : c + b < 5000) (hfit : base + (b + c) ≤ TimeSync.maxTs) :
    let tr := (Pair.run (Pair.start {} 10 {} 2048 { dis := 0, int := 0, en := 0 } (some base) a b).1
      [.user (.nonRead (.timeSync (some 7) (.recordCurrent none))), .setDelay true c,
       .tick a, .tick b, .tick c, .tick b]).2
    writeTimes tr = [base + (b + c)] ∧
    writeInstants tr = [(a + b + c, base + (b + c))] ∧
    (base + (b + c)) + a = base + (a + b + c) ∧
    completionsOf tr = [(7, .ok)] := by
  intro tr
  have h : tr = _ := lan_pair_trace_partial base a b c ha hb hc h1 h2 hfit
  rw [h]
  refine ⟨rfl, rfl, by omega, rfl⟩

example : writeTimes (Pair.run (Pair.start {} 10 {} 2048 { dis := 0, int := 0, en := 0 } (some 1000) 30 50).1
    [.user (.nonRead (.timeSync (some 7) (.recordCurrent none))), .setDelay true 40,
     .tick 30, .tick 50, .tick 40, .tick 50]).2 = [1090] :=
  (lan_pair_end_to_end_partial 1000 30 50 40 (by decide) (by decide) (by decide) (by decide) (by decide) (by decide)).1

end PairLan


/-! ## C2 (non-LAN) over the PAIR model

Same start configuration and caveats as for the LAN procedure.  In the pair model the outstation
answers at the instant the request arrives, so its real processing delay is 0 and the honest report
is `r = 0`; `r` is what the scripted application reports (`Script.delayMs`, `r < 65536` so that it
fits g52v2).  `a` = delay of DELAY_MEASURE, `b` = delay of the replies, `c` = delay of the WRITE. -/
section PairNonLan
open Dnp3 Dnp3.Pair Dnp3.Proofs.C18Pair

/-- the complete observable trace when the reported delay does not exceed the round trip -/
theorem nonlan_pair_trace_partial (base a b c r : Nat) (ha : 0 < a) (hb : 0 < b) (hc : 0 < c)
    (h1 : a + b < 5000) (h2 : c + b < 5000) (hr : r ≤ a + b) (hr16 : r < 65536)
    (hfit : base + (a + b) + (a + b - r) / 2 ≤ TimeSync.maxTs) :
    (Pair.run (Pair.start {} 10 {} 2048 { dis := 0, int := 0, en := 0 } (some base) a b).1
      [.script fun s => { s with delayMs := r }, .user (.nonRead (.timeSync (some 7) (.measureDelay none))),
       .setDelay true c, .tick a, .tick b, .tick c, .tick b]).2 =
      [ [.o []],
        [.m [.taskStart 1024 .timeSync 23 0, .tx 1024 [192, 23]]],
        [],
        [.time a, .m [], .o [], .delivered true [⟨some a, 15, .frag 1 1024 [192, 23]⟩],
         .o [.tx 1 ([192, 129, 128, 0] ++ delayObject r)]],
        [.time (a + b), .m [], .o [],
         .delivered false [⟨some (a + b), 23, .frag 1024 1 ([192, 129, 128, 0] ++ delayObject r)⟩],
         .m [.tx 1024 ([193, 2, 50, 1, 7, 1] ++ Master.le48 (base + (a + b) + (a + b - r) / 2))]],
        [.time (a + b + c), .m [], .o [],
         .delivered true [⟨some (a + b + c), 25,
           .frag 1 1024 ([193, 2, 50, 1, 7, 1] ++ Master.le48 (base + (a + b) + (a + b - r) / 2))⟩],
         .o [.cb (.writeTime (base + (a + b) + (a + b - r) / 2)), .tx 1 [193, 129, 128, 0]]],
        [.time (a + b + c + b), .m [], .o [],
         .delivered false [⟨some (a + b + c + b), 17, .frag 1024 1 [193, 129, 128, 0]⟩],
         .m [.complete 7 .ok, .taskSuccess 1024 .timeSync 23 1, .taskStart 1024 .clearRestartBit 2 2,
             .tx 1024 [194, 2, 80, 1, 0, 7, 7, 0]]] ] := by
  have h := nonlan_pair_trace base a b c r ha hb hc h1 h2 hr hr16 (by unfold TimeSync.maxTs at hfit; exact hfit)
  have hs := start_eq base a b
  unfold acfg at hs
  rw [hs]
  have hu := u48_wire_round_trip (base + (a + b) + (a + b - r) / 2) hfit
  have hab : mclk base (a + b) = base + (a + b) := mclk_eq base (a + b) (by unfold TimeSync.maxTs at hfit; omega)
  simp only [nonlanOps, nonlanTs, Nat.zero_add, Nat.sub_zero, wfragA, dfrag, hab, hu] at h
  exact h

/-- C2 (non-LAN), honest report: exactly one time `T = base + (a + b) + ⌊(a + b)/2⌋` is handed to the
    application, at virtual time `a + b + c`, when the master's clock reads `base + (a + b + c)`; the
    error is `⌊(a + b)/2⌋ − c` (as `TimeSync.nonLan` says), zero when the three delays are equal, and
    promise 7 completes with `Ok` -/
theorem nonlan_pair_end_to_end_partial (base a b c : Nat) (ha : 0 < a) (hb : 0 < b) (hc : 0 < c)
    (h1 : a + b < 5000) (h2 : c + b < 5000) (hfit : base + (a + b) + (a + b) / 2 ≤ TimeSync.maxTs) :
    let tr := (Pair.run (Pair.start {} 10 {} 2048 { dis := 0, int := 0, en := 0 } (some base) a b).1
      [.script fun s => { s with delayMs := 0 }, .user (.nonRead (.timeSync (some 7) (.measureDelay none))),
       .setDelay true c, .tick a, .tick b, .tick c, .tick b]).2
    let T := base + (a + b) + (a + b) / 2
    writeTimes tr = [T] ∧
    writeInstants tr = [(a + b + c, T)] ∧
    nonLan base a 0 b c 0 = .ok (T, base + (a + b + c)) ∧
    (T : Int) - (base + (a + b + c) : Nat) = ((a + b) / 2 : Nat) - (c : Int) ∧
    (a = c → b = c → T = base + (a + b + c)) ∧
    completionsOf tr = [(7, .ok)] := by
  intro tr T
  have h : tr = _ := nonlan_pair_trace_partial base a b c 0 ha hb hc h1 h2 (by omega) (by decide)
    (by simpa using hfit)
  have hnl : nonLan base a 0 b c 0 = .ok (T, base + (a + b + c)) := by
    unfold nonLan
    simp only [handleDelayMeasure_eq, Nat.add_zero, Nat.sub_zero]
    have h1 : ¬ a + b < 0 := by omega
    have h2 : ¬ (a + b) / 2 > TimeSync.maxTs - (base + (a + b)) := by omega
    simp only [h1, h2, if_false]
    have e : base + (a + b) + c = base + (a + b + c) := by omega
    rw [e]
  rw [h]
  simp only [Nat.sub_zero]
  refine ⟨rfl, rfl, hnl, ?_, ?_, rfl⟩
  · exact nonlan_error_formula _ _ _ _ _ _ _ hnl
  · exact (nonlan_error_bounded_by_asymmetry _ _ _ _ _ _ _ hnl).2.2

/-- C2 (non-LAN), failure: a reported processing delay exceeding the round trip `a + b` makes the
    master complete promise 7 with `tsBadDelay r`; no time is written and the only request the master
    sends afterwards is the clear-restart WRITE of g80v1 (no WRITE of g50) -/
theorem nonlan_pair_bad_delay_fails_partial (base a b r : Nat) (ha : 0 < a) (hb : 0 < b)
    (h1 : a + b < 5000) (hr : a + b < r) (hr16 : r < 65536) :
    let tr := (Pair.run (Pair.start {} 10 {} 2048 { dis := 0, int := 0, en := 0 } (some base) a b).1
      [.script fun s => { s with delayMs := r }, .user (.nonRead (.timeSync (some 7) (.measureDelay none))),
       .tick a, .tick b]).2
    tr = [ [.o []],
        [.m [.taskStart 1024 .timeSync 23 0, .tx 1024 [192, 23]]],
        [.time a, .m [], .o [], .delivered true [⟨some a, 15, .frag 1 1024 [192, 23]⟩],
         .o [.tx 1 ([192, 129, 128, 0] ++ delayObject r)]],
        [.time (a + b), .m [], .o [],
         .delivered false [⟨some (a + b), 23, .frag 1024 1 ([192, 129, 128, 0] ++ delayObject r)⟩],
         .m [.complete 7 (.tsBadDelay r), .taskFail 1024 .timeSync .unexpectedHeaders,
             .taskStart 1024 .clearRestartBit 2 1, .tx 1024 [193, 2, 80, 1, 0, 7, 7, 0]]] ] ∧
    writeTimes tr = [] ∧ completionsOf tr = [(7, .tsBadDelay r)] := by
  intro tr
  have h0 := nonlan_pair_bad_trace base a b r ha hb h1 hr hr16
  have hs := start_eq base a b
  unfold acfg at hs
  simp only [nonlanBadOps, Nat.zero_add, dfrag] at h0
  rw [← hs] at h0
  have h : tr = _ := h0
  rw [h]
  exact ⟨rfl, rfl, rfl⟩

example : writeTimes (Pair.run (Pair.start {} 10 {} 2048 { dis := 0, int := 0, en := 0 } (some 1000) 30 50).1
    [.script fun s => { s with delayMs := 0 }, .user (.nonRead (.timeSync (some 7) (.measureDelay none))),
     .setDelay true 40, .tick 30, .tick 50, .tick 40, .tick 50]).2 = [1120] :=
  (nonlan_pair_end_to_end_partial 1000 30 50 40 (by decide) (by decide) (by decide) (by decide) (by decide) (by decide)).1
example := nonlan_pair_bad_delay_fails_partial 1000 30 50 100 (by decide) (by decide) (by decide) (by decide) (by decide)
example := nonlan_pair_trace_partial 1000 30 50 40 10 (by decide) (by decide) (by decide) (by decide) (by decide)
  (by decide) (by decide) (by decide)
example := lan_pair_trace_partial 1000 30 50 40 (by decide) (by decide) (by decide) (by decide) (by decide) (by decide)

end PairNonLan

end Dnp3.Props.C18
