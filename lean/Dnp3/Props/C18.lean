import Dnp3.Model.TimeSync
import Dnp3.Model.Outstation
/-!
# C18 — Time synchronisation sets the outstation's clock to the master's
-/
namespace Dnp3.Props.C18
open Dnp3.TimeSync

/-- LAN procedure: the time handed to the outstation application lags the master's clock at that
    instant by exactly the one-way delay of the RECORD_CURRENT_TIME request, whatever the other
    delays are; so |error| ≤ one-way transmission delay -/
theorem lan_error_is_forward_delay (m0 a gap ts mclock : Nat) (h : lan m0 a gap = some (ts, mclock)) :
    mclock = ts + a ∧ ts = m0 + gap := by
  unfold lan outstationWriteLastRecorded at h
  simp only at h
  split at h
  · cases h
  · rename_i hs
    split at hs
    · cases hs
    · injection hs with hs; injection h with h; injection h with h1 h2; omega

/-- LAN: the write is refused (no clock write) exactly when the computed time exceeds 48 bits -/
theorem lan_overflow_refused (m0 a gap : Nat) : lan m0 a gap = none ↔ m0 + gap > maxTs := by
  unfold lan outstationWriteLastRecorded
  simp only
  split <;> rename_i hs
  · split at hs
    · simp; omega
    · cases hs
  · split at hs
    · cases hs
    · simp; omega

/-- closed form of the master's delay-measure handler -/
theorem handleDelayMeasure_eq (i r c : Nat) :
    handleDelayMeasure i r (some c) =
      if i < r then .error (.badOutstationDelay r)
      else if (i - r) / 2 > maxTs - c then .error .overflow
      else .ok (c + (i - r) / 2) := by
  unfold handleDelayMeasure tsAdd
  by_cases h1 : i < r
  · simp [h1]
  · by_cases h2 : (i - r) / 2 > maxTs - c
    · simp [h1, h2]
    · simp [h1, h2]

/-- what a successful non-LAN run computes -/
theorem nonLan_ok (m0 a p b c ts mclock : Nat) (h : nonLan m0 a p b c p = .ok (ts, mclock)) :
    ts = m0 + (a + p + b) + (a + b) / 2 ∧ mclock = m0 + (a + p + b) + c := by
  unfold nonLan at h
  simp only [handleDelayMeasure_eq] at h
  have hi : a + p + b - p = a + b := by omega
  by_cases h1 : a + p + b < p
  · omega
  · by_cases h2 : (a + p + b - p) / 2 > maxTs - (m0 + (a + p + b))
    · simp [h1, h2] at h
    · simp [h1, h2] at h
      rw [hi] at h
      omega

/-- non-LAN procedure with an honestly reported processing delay: the error is
    ⌊(a+b)/2⌋ − c, independent of the processing delay p -/
theorem nonlan_error_formula (m0 a p b c ts mclock : Nat)
    (h : nonLan m0 a p b c p = .ok (ts, mclock)) :
    (ts : Int) - mclock = ((a + b) / 2 : Nat) - (c : Int) := by
  obtain ⟨h1, h2⟩ := nonLan_ok m0 a p b c ts mclock h
  omega

/-- … hence bounded by the asymmetry of the one-way delays and zero when they are equal -/
theorem nonlan_error_bounded_by_asymmetry (m0 a p b c ts mclock : Nat)
    (h : nonLan m0 a p b c p = .ok (ts, mclock)) :
    ((ts : Int) - mclock ≤ max ((a : Int) - c) ((b : Int) - c)) ∧
    ((mclock : Int) - ts ≤ max ((c : Int) - a) ((c : Int) - b) + 1) ∧
    (a = c → b = c → ts = mclock) := by
  obtain ⟨h1, h2⟩ := nonLan_ok m0 a p b c ts mclock h
  have hd : (a + b) / 2 * 2 ≤ a + b ∧ a + b < (a + b) / 2 * 2 + 2 := by omega
  refine ⟨?_, ?_, ?_⟩
  · omega
  · omega
  · intro h3 h4; subst h3 h4; omega

/-- a reported processing delay exceeding the round trip is rejected -/
theorem sync_fails_when_delay_exceeds_round_trip (interval reported c : Nat)
    (h : interval < reported) :
    handleDelayMeasure interval reported (some c) = .error (.badOutstationDelay reported) := by
  rw [handleDelayMeasure_eq]; simp [h]

/-- a written time that does not fit 48 bits is rejected -/
theorem sync_fails_on_overflow (interval reported c : Nat) (h : reported ≤ interval)
    (ho : (interval - reported) / 2 > maxTs - c) :
    handleDelayMeasure interval reported (some c) = .error .overflow := by
  rw [handleDelayMeasure_eq]
  have : ¬ interval < reported := by omega
  simp [this, ho]

/-- success is reported only when neither failure condition holds -/
theorem delay_measure_ok_iff (i r c ts : Nat) :
    handleDelayMeasure i r (some c) = .ok ts ↔ (r ≤ i ∧ (i - r) / 2 ≤ maxTs - c ∧ ts = c + (i - r) / 2) := by
  rw [handleDelayMeasure_eq]
  by_cases h1 : i < r
  · simp [h1]; omega
  · by_cases h2 : (i - r) / 2 > maxTs - c
    · simp [h1, h2]; omega
    · simp [h1, h2]; constructor
      · intro h; omega
      · intro h; omega

/-- the final reply: success is reported only for an empty reply without NEED_TIME -/
theorem final_reply_success_iff (objectsEmpty needTime : Bool) :
    handleWriteReply objectsEmpty needTime = .ok () ↔ (objectsEmpty = true ∧ needTime = false) := by
  cases objectsEmpty <;> cases needTime <;> simp [handleWriteReply]

/-- the outstation session model (the one in correspondence with the real task) handles
    WRITE g50v3 exactly as `outstationWriteLastRecorded` says: the application receives
    `value + elapsed since RECORD_CURRENT_TIME`, or PARAMETER_ERROR and no clock write on overflow -/
theorem outstation_write_last_recorded_as_modelled (a : Dnp3.Acc) (h : Dnp3.ObjHdr)
    (hg : h.group = 50) (hv : h.var = 3) (hq : h.qual = 0x07) (hc : h.a = 1) (t0 : Nat)
    (hr : a.1.lastRecorded = some t0) :
    (match outstationWriteLastRecorded (Dnp3.u48le h.data) t0 a.1.now with
     | none => Dnp3.handleWriteHeader a h = (a, Dnp3.iin2ParamError)
     | some ts => (Dnp3.handleWriteHeader a h).1.2 = a.2 ++ [.cb (.writeTime ts)] ∧
                  (Dnp3.handleWriteHeader a h).1.1.lastRecorded = none) := by
  unfold outstationWriteLastRecorded Dnp3.handleWriteHeader
  by_cases ho : Dnp3.u48le h.data + (a.1.now - t0) > 281474976710655
  · simp [hg, hv, hq, hc, hr, maxTs, ho]
  · simp [hg, hv, hq, hc, hr, maxTs, ho, Dnp3.emitCb, Dnp3.emit]

example : nonLan 1000 30 7 50 40 7 = .ok (1127, 1127) := rfl
example : lan 1000 25 300 = some (1300, 1325) := rfl

end Dnp3.Props.C18
