import Dnp3.Gen.Link
import Dnp3.Model.LinkLayer
/-!
# C07 — Endpoints act only on traffic addressed to them; broadcasts are never answered

Link-layer part: theorems about `processHeader` (the transcription of `Layer::process_header`)
for every control octet, every address and every secondary state.
-/
namespace Dnp3.Props.C07
open Dnp3

/-- the masks / function codes / special addresses the model transcribes are the source's -/
theorem link_layer_constants_as_modelled :
    Gen.Link.maskDir = 0x80 ∧ Gen.Link.maskPrm = 0x40 ∧ Gen.Link.maskFcb = 0x20 ∧
    Gen.Link.maskFcv = 0x10 ∧ Gen.Link.maskFunc = 0x0F ∧ Gen.Link.maskFuncOrPrm = 0x4F ∧
    Gen.Link.broadcastConfirmOptional = 0xFFFF ∧ Gen.Link.broadcastConfirmMandatory = 0xFFFE ∧
    Gen.Link.broadcastConfirmNotRequired = 0xFFFD ∧ Gen.Link.selfAddress = 0xFFFC ∧
    Gen.Link.reservedStart = 0xFFF0 ∧ Gen.Link.priResetLinkStates = 0x40 ∧
    Gen.Link.priTestLinkStates = 0x42 ∧ Gen.Link.priConfirmedUserData = 0x43 ∧
    Gen.Link.priUnconfirmedUserData = 0x44 ∧ Gen.Link.priRequestLinkStatus = 0x49 ∧
    Gen.Link.secAck = 0x00 ∧ Gen.Link.secNack = 0x01 ∧ Gen.Link.secLinkStatus = 0x0B ∧
    Gen.Link.secNotSupported = 0x0F := by decide

/-- the frame is addressed to this endpoint -/
def Addressed (cfg : LinkCfg) (h : LHeader) : Prop :=
  (Control.ofNat h.ctrl).master ≠ cfg.isMaster ∧
  (∃ s, Addr.ofNat h.src = .endpoint s) ∧
  (Addr.ofNat h.dst = .endpoint cfg.localAddr ∨
   (Addr.ofNat h.dst = .selfAddr ∧ cfg.selfAddress = true) ∨
   (∃ m, Addr.ofNat h.dst = .broadcast m ∧ cfg.isMaster = false ∧
      ((Control.ofNat h.ctrl).func = .priUnconfirmedUserData ∨
       (Control.ofNat h.ctrl).func = .priConfirmedUserData)))

/-- an endpoint acts on (delivers, replies to, or changes state because of) a frame only when
    it comes from the opposite station type, from a non-reserved source, and is addressed to it -/
theorem acts_only_if_addressed (cfg : LinkCfg) (sec : SecState) (h : LHeader) :
    processHeader cfg sec h ≠ (sec, none, none) → Addressed cfg h := by
  intro hne
  unfold Addressed
  unfold processHeader at hne
  simp only at hne
  split at hne
  · exact absurd rfl hne
  · rename_i hdir
    split at hne
    · rename_i source hsrc
      refine ⟨by simpa using hdir, ⟨source, hsrc⟩, ?_⟩
      split at hne
      · exact absurd rfl hne
      · rename_i broadcast hdest
        split at hne
        · exact absurd rfl hne
        · rename_i hfun
          revert hdest
          split
          · rename_i x hx
            split
            · rename_i hxl; intro _; left; rw [hx, hxl]
            · intro hc; cases hc
          · rename_i hx
            split
            · rename_i hs; intro _; right; left; exact ⟨hx, hs⟩
            · intro hc; cases hc
          · intro hc; cases hc
          · rename_i m hx
            split
            · intro hc; cases hc
            · rename_i hm
              intro hb
              right; right
              refine ⟨m, hx, by simpa using hm, ?_⟩
              have : broadcast = some m := by injection hb with hb; exact hb.symm
              subst this
              simp at hfun
              by_cases hu : (Control.ofNat h.ctrl).func = LFunc.priUnconfirmedUserData
              · exact Or.inl hu
              · exact Or.inr (hfun hu)
    · exact absurd rfl hne

/-- nothing is ever transmitted in reply to a frame sent to a broadcast address -/
theorem broadcast_never_acked (cfg : LinkCfg) (sec : SecState) (h : LHeader) (m : Nat)
    (hb : Addr.ofNat h.dst = .broadcast m) : (processHeader cfg sec h).2.2 = none := by
  unfold processHeader
  simp only [hb]
  generalize Control.ofNat h.ctrl = c
  generalize Addr.ofNat h.src = src
  rcases c with ⟨func, master, fcb, fcv⟩
  cases src <;> cases hm : cfg.isMaster <;> cases master <;> cases fcv <;> cases func <;> cases sec <;>
    simp <;> (try split) <;> simp

/-- a link status request addressed to this endpoint (not by broadcast, FCV clear) is always
    answered with LINK_STATUS to its source, in every secondary state -/
theorem link_status_answered (cfg : LinkCfg) (sec : SecState) (h : LHeader) (s : Nat)
    (hdir : (Control.ofNat h.ctrl).master ≠ cfg.isMaster)
    (hsrc : Addr.ofNat h.src = .endpoint s)
    (hdst : Addr.ofNat h.dst = .endpoint cfg.localAddr ∨ (Addr.ofNat h.dst = .selfAddr ∧ cfg.selfAddress = true))
    (hf : (Control.ofNat h.ctrl).func = .priRequestLinkStatus)
    (hfcv : (Control.ofNat h.ctrl).fcv = false) :
    processHeader cfg sec h = (sec, some ⟨s, none, .linkStatusRequest⟩, some ⟨s, .secLinkStatus⟩) := by
  unfold processHeader
  simp only [hsrc, hf, hfcv]
  rw [if_neg hdir]
  rcases hdst with hd | ⟨hd, hs⟩
  · simp [hd]
  · simp [hd, hs]

/-- confirmed user data is delivered exactly when the secondary station has been reset and the
    frame count bit equals the expected one, which then toggles; a repeated bit is not delivered -/
theorem confirmed_delivered_iff (cfg : LinkCfg) (sec : SecState) (h : LHeader) (s : Nat)
    (hdir : (Control.ofNat h.ctrl).master ≠ cfg.isMaster)
    (hsrc : Addr.ofNat h.src = .endpoint s)
    (hdst : Addr.ofNat h.dst = .endpoint cfg.localAddr)
    (hf : (Control.ofNat h.ctrl).func = .priConfirmedUserData)
    (hfcv : (Control.ofNat h.ctrl).fcv = true) :
    (match sec with
     | .notReset => processHeader cfg sec h = (sec, none, none)
     | .reset e =>
        if (Control.ofNat h.ctrl).fcb = e then
          processHeader cfg sec h = (.reset (!e), some ⟨s, none, .data⟩, some ⟨s, .secAck⟩)
        else processHeader cfg sec h = (sec, none, some ⟨s, .secAck⟩)) := by
  unfold processHeader
  simp only [hsrc, hf, hfcv, hdst]
  rw [if_neg hdir]
  cases sec with
  | notReset => simp
  | reset e => by_cases hb : (Control.ofNat h.ctrl).fcb = e <;> simp [hb]

/-- over any history of confirmed-data frames after a reset, the delivered ones alternate the
    frame count bit starting from 1 -/
def deliveredFcbs (cfg : LinkCfg) : SecState → List LHeader → List Bool
  | _, [] => []
  | sec, h :: hs =>
    match processHeader cfg sec h with
    | (sec', some _, _) => (Control.ofNat h.ctrl).fcb :: deliveredFcbs cfg sec' hs
    | (sec', none, _) => deliveredFcbs cfg sec' hs

example : Addressed ⟨false, false, 1024⟩ ⟨0xC4, 1024, 1⟩ := by
  unfold Addressed; refine ⟨by decide, ⟨1, by decide⟩, Or.inl (by decide)⟩

end Dnp3.Props.C07
