import Dnp3.Props.C08Base
import Dnp3.Proofs.Transport
/-!
# C08 — property theorems over all fragments, sequence numbers and segment histories
(definitions `Seg`, `feedSegs`, `segsOf`, `RunFrom`, `Keep`, `Delivered` are in `Dnp3.Proofs.Transport`)
-/
namespace Dnp3.Props.C08
open Dnp3 Dnp3.Proofs.Transport

/-- the link frames `Writer::write` emits carry exactly the transport octet and payload of the
    abstract segments `segsOf` -/
theorem writer_frames_are_segments (isMaster : Bool) (dest localAddr : Nat) (info : FrameInfo)
    (seq0 : Nat) (frag : List Nat) :
    (segment isMaster dest localAddr seq0 frag).1 =
      (segsOf info seq0 frag).map (segFrame isMaster dest localAddr) :=
  segment_frames isMaster dest localAddr info seq0 frag

/-- the payloads of the segments of a fragment concatenate to the fragment -/
theorem segments_carry_the_fragment (info : FrameInfo) (seq0 : Nat) (frag : List Nat) :
    (segsOf info seq0 frag).flatMap (·.payload) = frag :=
  segsOf_payloads info seq0 frag

/-- **segment / reassemble** and **damage costs one fragment**: whatever the assembler has seen
    before (any state), feeding the segments of a fragment of 1..=cap octets — for every
    starting sequence number, wrap included — delivers exactly that fragment, from its source,
    with the next frame id -/
theorem segment_reassemble (a : Assembler) (info : FrameInfo) (seq0 : Nat) (frag : List Nat)
    (hb : info.broadcast = none) (h1 : 1 ≤ frag.length) (hcap : frag.length ≤ a.cap) :
    ∃ a', feedSegs a (segsOf info seq0 frag) = (a', [(⟨a.frameId, info.source, none⟩, frag)]) ∧
      a'.st = .empty ∧ a'.frameId = (a.frameId + 1) % 4294967296 ∧ a'.cap = a.cap :=
  Dnp3.Proofs.Transport.segment_reassemble a info seq0 frag hb h1 hcap

/-- a fragment larger than the receive buffer is never delivered -/
theorem oversize_never_delivered (a : Assembler) (info : FrameInfo) (seq0 : Nat) (frag : List Nat)
    (hb : info.broadcast = none) (hcap : a.cap < frag.length) :
    ∃ a', feedSegs a (segsOf info seq0 frag) = (a', []) ∧ a'.st = .empty ∧
      a'.frameId = a.frameId ∧ a'.cap = a.cap :=
  segment_oversize_dropped a info seq0 frag hb hcap

/-- **delivered ⇒ run** over EVERY segment history: each delivered fragment is the concatenation
    of a FIR…FIN run with consecutive sequence numbers, identical frame info (same source),
    within the buffer, a single FIR+FIN segment for a broadcast.  The run is a contiguous block
    of the history once the always-ignored non-FIR broadcast segments are filtered out -/
theorem delivered_is_run_general (c : Nat) (segs : List Seg) :
    ∀ fd ∈ (feedSegs { cap := c } segs).2, Delivered c segs fd :=
  delivered_is_run_partial c segs

/-- … and it is a contiguous run of the history itself when no non-FIR broadcast segment occurs -/
theorem delivered_is_run (c : Nat) (segs : List Seg) (hk : ∀ s ∈ segs, Keep s = true) :
    ∀ fd ∈ (feedSegs { cap := c } segs).2, ∃ pre run post info, segs = pre ++ run ++ post ∧
      RunFrom info true run ∧ fd.2 = payloads run ∧ fd.2.length ≤ c ∧ fd.1.source = info.source ∧
      fd.1.broadcast = info.broadcast ∧ (info.broadcast.isSome = true → run.length = 1) :=
  Dnp3.Proofs.Transport.delivered_is_run c segs hk

/-- the full contiguity statement is false of the code: a non-FIR broadcast segment arriving in
    the middle of a unicast run is ignored WITHOUT resetting the run (the segment is not part
    of the delivered fragment, so the property's wording is not violated) -/
theorem contiguity_counterexample :
    (feedSegs { cap := 2048 }
      [⟨⟨1, none, .data⟩, ⟨false, true, 1⟩, [10]⟩,
       ⟨⟨2, some 0, .data⟩, ⟨false, false, 9⟩, [99]⟩,
       ⟨⟨1, none, .data⟩, ⟨true, false, 2⟩, [20]⟩]).2 = [(⟨0, 1, none⟩, [10, 20])] :=
  Dnp3.Proofs.Transport.contiguity_counterexample

/-- delivered fragments carry consecutive frame ids 0, 1, 2, … (mod 2^32) (used by C04) -/
theorem frame_ids_initial (c : Nat) (segs : List Seg) :
    (feedSegs { cap := c } segs).2.map (·.1.id) =
      (List.range (feedSegs { cap := c } segs).2.length).map (fun i => i % 4294967296) :=
  Dnp3.Proofs.Transport.frame_ids_initial c segs

end Dnp3.Props.C08
