import Dnp3.Model.OutstationTrace
import Dnp3.Proofs.OutstationC07
/-!
# C07 (application part) — fragments from a foreign master or by broadcast

"An outstation executes and answers application fragments only from its configured master
address unless told to accept any master, and it transmits nothing in reply to a broadcast."
Holds for fragments whose application header is well formed; header-error fragments ARE answered
(known defect D6) — kept as counterexample theorems.  Statements restated verbatim from
`Dnp3.Proofs.OutstationC07`.
-/
namespace Dnp3.Props.C07
open Dnp3 Dnp3.Proofs.C07app

theorem popRequest_foreign_master_silent (s : OState) (f : Frag) (ctrl : AppCtrl) (func : Nat)
    (objects : Except Nat (List ObjHdr)) (raw : List Nat)
    (hany : s.cfg.anymaster = false) (hsrc : f.src ≠ s.cfg.master)
    (hp : parseRequest f.data = .request ctrl func objects raw) :
    popRequest { s with pending := some f } = ({ s with pending := none }, .nothing) :=
  @Dnp3.Proofs.C07app.popRequest_foreign_master_silent s f ctrl func objects raw hany hsrc hp

/-- foreign well-formed request while waiting for a solicited confirm: no output, only the frame
    counter advances (and the fragment is consumed) -/
theorem foreign_master_silent_solWait (env : OEnv) (s : OState) (src dst : Nat) (data : List Nat)
    (b : Option Nat) (series : Series) (deadline : Nat) (cont : SolCont)
    (ctrl : AppCtrl) (func : Nat) (objects : Except Nat (List ObjHdr)) (raw : List Nat)
    (hmode : s.mode = .solWait series deadline cont)
    (hacc : RxAccepted env src dst data b)
    (hany : s.cfg.anymaster = false) (hsrc : src ≠ s.cfg.master)
    (hp : parseRequest data = .request ctrl func objects raw) :
    Outstation.step env s (.rx src dst data) =
      ({ s with frameId := (s.frameId + 1) % 4294967296, pending := none }, []) :=
  @Dnp3.Proofs.C07app.foreign_master_silent_solWait env s src dst data b series deadline cont ctrl func objects raw hmode hacc hany hsrc hp

theorem foreign_master_silent_unsolWait (env : OEnv) (s : OState) (src dst : Nat) (data : List Nat)
    (b : Option Nat) (resp : Resp) (isNull : Bool) (retries : Option Nat) (deadline : Nat)
    (ctrl : AppCtrl) (func : Nat) (objects : Except Nat (List ObjHdr)) (raw : List Nat)
    (hmode : s.mode = .unsolWait resp isNull retries deadline)
    (hacc : RxAccepted env src dst data b)
    (hany : s.cfg.anymaster = false) (hsrc : src ≠ s.cfg.master)
    (hp : parseRequest data = .request ctrl func objects raw) :
    Outstation.step env s (.rx src dst data) =
      ({ s with frameId := (s.frameId + 1) % 4294967296, pending := none }, []) :=
  @Dnp3.Proofs.C07app.foreign_master_silent_unsolWait env s src dst data b resp isNull retries deadline ctrl func objects raw hmode hacc hany hsrc hp

/-- in idle mode the pass runs, but exactly as if no fragment had arrived: the step equals an
    idle pass from the state whose frame counter advanced and whose reader is empty -/
theorem foreign_master_silent_idle (env : OEnv) (s : OState) (src dst : Nat) (data : List Nat)
    (b : Option Nat) (next : NextIdle)
    (ctrl : AppCtrl) (func : Nat) (objects : Except Nat (List ObjHdr)) (raw : List Nat)
    (hmode : s.mode = .idle next)
    (hacc : RxAccepted env src dst data b)
    (hany : s.cfg.anymaster = false) (hsrc : src ≠ s.cfg.master)
    (hp : parseRequest data = .request ctrl func objects raw) :
    Outstation.step env s (.rx src dst data) =
      finishStep (settle 8 (afterRequest (runPass (passFuel - 1))
        ({ s with frameId := (s.frameId + 1) % 4294967296, notified := false, pending := none }, []))) :=
  @Dnp3.Proofs.C07app.foreign_master_silent_idle env s src dst data b next ctrl func objects raw hmode hacc hany hsrc hp

/-- MAIN (target 1): in every mode, a well-formed request from a foreign master that passes the
    address/length filters has no influence beyond advancing the frame counter: any two such
    fragments (different sources, destinations, contents) give the same step result -/
theorem foreign_master_silent (env : OEnv) (s : OState)
    (src dst : Nat) (data : List Nat) (b : Option Nat)
    (ctrl : AppCtrl) (func : Nat) (objects : Except Nat (List ObjHdr)) (raw : List Nat)
    (src' dst' : Nat) (data' : List Nat) (b' : Option Nat)
    (ctrl' : AppCtrl) (func' : Nat) (objects' : Except Nat (List ObjHdr)) (raw' : List Nat)
    (hany : s.cfg.anymaster = false)
    (hacc : RxAccepted env src dst data b) (hsrc : src ≠ s.cfg.master)
    (hp : parseRequest data = .request ctrl func objects raw)
    (hacc' : RxAccepted env src' dst' data' b') (hsrc' : src' ≠ s.cfg.master)
    (hp' : parseRequest data' = .request ctrl' func' objects' raw') :
    Outstation.step env s (.rx src dst data) = Outstation.step env s (.rx src' dst' data') :=
  @Dnp3.Proofs.C07app.foreign_master_silent env s src dst data b ctrl func objects raw src' dst' data' b' ctrl' func' objects' raw' hany hacc hsrc hp hacc' hsrc' hp'

/-- `foreign_master_error_answered_counterexample`: unknown function code 70 from master 99
    (configured master 1, `anymaster = false`) is answered to 99 with IIN2.0 -/
theorem foreign_master_error_answered_counterexample :
    cfg0.anymaster = false ∧ cfg0.master = 1 ∧
    txFrags (Outstation.step {} (Outstation.start cfg0 0).1 (.rx 99 1024 [0xC3, 70])).2
      = [(99, [0xC3, 0x81, 0x80, 0x01])] :=
  @Dnp3.Proofs.C07app.foreign_master_error_answered_counterexample 

/-- in a solicited confirm wait (reached here by a mandatory-confirm broadcast followed by a
    RECORD_CURRENT_TIME request, whose response then asks for a confirm) the foreign header-error
    fragment aborts the wait (`solNewRequest`) and is then answered -/
theorem foreign_master_error_aborts_solWait_counterexample :
    (Outstation.run {} (Outstation.start cfg0 0).1
        [.rx 1 0xFFFE [0xC3, 24], .rx 1 1024 [0xC4, 24], .rx 99 1024 [0xC3, 70]]).2.map
      (fun o => (cbs o, txFrags o)) =
    [([.broadcast 24 .processed], []),
     ([.solWait 4], [(1, [0xE4, 0x81, 0x81, 0x00])]),
     ([.solNewRequest], [(99, [0xE3, 0x81, 0x81, 0x01])])] :=
  @Dnp3.Proofs.C07app.foreign_master_error_aborts_solWait_counterexample 

theorem classify_broadcast (s : OState) (f : Frag) (ctrl : AppCtrl) (func : Nat)
    (objects : Except Nat (List ObjHdr)) (m : Nat) (hb : f.broadcast = some m) (hf : func ≠ 0) :
    classify s f ctrl func objects = .broadcast m :=
  @Dnp3.Proofs.C07app.classify_broadcast s f ctrl func objects m hb hf

/-- output of `process_broadcast`: callbacks only, ending with the `broadcast` callback;
    `lastBroadcast` records the confirm mode -/
theorem processBroadcast_silent (a : Acc) (f : Frag) (m : Nat) (ctrl : AppCtrl) (func : Nat)
    (objects : Except Nat (List ObjHdr)) (raw : List Nat) (a' : Acc)
    (h : processBroadcast a f m ctrl func objects raw = some a') :
    a'.1.lastBroadcast = some m ∧
    (a'.1.pending = a.1.pending ∧ a'.1.mode = a.1.mode ∧ a'.1.cfg = a.1.cfg) ∧
    ∃ l action, a'.2 = a.2 ++ l ++ [.cb (.broadcast func action)] ∧ OnlyCb l :=
  @Dnp3.Proofs.C07app.processBroadcast_silent a f m ctrl func objects raw a' h

/-- MAIN (target 3), idle processing of a well-formed broadcast request -/
theorem broadcast_silent (a : Acc) (f : Frag) (ctrl : AppCtrl) (func : Nat)
    (objects : Except Nat (List ObjHdr)) (raw : List Nat) (m : Nat)
    (hb : f.broadcast = some m) (hf : func ≠ 0) :
    ∃ a', handleRequestFromIdle a f ctrl func objects raw = some (a', none) ∧
      a'.1.lastBroadcast = some m ∧
      (∃ l action, a'.2 = a.2 ++ l ++ [.cb (.broadcast func action)] ∧ OnlyCb l) ∧
      txFrags a'.2 = txFrags a.2 :=
  @Dnp3.Proofs.C07app.broadcast_silent a f ctrl func objects raw m hb hf

/-- BROADCAST, step level, unsolicited confirm wait: the whole step emits callbacks only (the last one
    being the `broadcast` callback), transmits nothing, stays in the wait -/
theorem broadcast_silent_unsolWait_step (env : OEnv) (s : OState) (src dst : Nat) (data : List Nat) (m : Nat)
    (resp : Resp) (isNull : Bool) (retries : Option Nat) (deadline : Nat)
    (ctrl : AppCtrl) (func : Nat) (objects : Except Nat (List ObjHdr)) (raw : List Nat)
    (hmode : s.mode = .unsolWait resp isNull retries deadline)
    (hacc : RxAccepted env src dst data (some m))
    (hsrc : s.cfg.anymaster = true ∨ src = s.cfg.master)
    (hp : parseRequest data = .request ctrl func objects raw) (hf : func ≠ 0) :
    ∃ s' l action, Outstation.step env s (.rx src dst data) = (s', l ++ [.cb (.broadcast func action)]) ∧
      OnlyCb l ∧ txFrags (l ++ [.cb (.broadcast func action)]) = [] ∧
      s'.lastBroadcast = some m ∧ s'.pending = none ∧ s'.mode = s.mode :=
  @Dnp3.Proofs.C07app.broadcast_silent_unsolWait_step env s src dst data m resp isNull retries deadline ctrl func objects raw hmode hacc hsrc hp hf

/-- `broadcast_error_answered_counterexample` (D6, second half): a broadcast fragment (dst 0xFFFF)
    with unknown function code 70 IS answered (`C3 81 80 01` to its source); general statement:
    `popRequest_headerError` + `runPass_headerError_answered` / `unsolWaitOnFragment_headerError_answered`
    (neither has any hypothesis on `f.broadcast`) -/
theorem broadcast_error_answered_counterexample :
    txFrags (Outstation.step {} (Outstation.start cfg0 0).1 (.rx 1 0xFFFF [0xC3, 70])).2
      = [(1, [0xC3, 0x81, 0x80, 0x01])] ∧
    -- also when broadcast support is disabled by configuration
    txFrags (Outstation.step {} (Outstation.start { cfg0 with broadcast := false } 0).1 (.rx 1 0xFFFF [0xC3, 70])).2
      = [(1, [0xC3, 0x81, 0x80, 0x01])] ∧
    -- and from a foreign master to the broadcast address, in the unsolicited confirm wait
    (Outstation.run {} (Outstation.start { cfg0 with unsolicited := true } 0).1
        [.rx 99 0xFFFF [0xC3, 70]]).2.map txFrags = [[(99, [0xC3, 0x81, 0x80, 0x01])]] :=
  @Dnp3.Proofs.C07app.broadcast_error_answered_counterexample 

theorem getResponseIin_after_broadcast (s s' : OState) (m i1 i2 : Nat)
    (hb : s.lastBroadcast = some m) (h : getResponseIin s = some (s', i1, i2)) :
    i1 % 2 = 1 ∧ s' = (if m ≠ 1 then { s with lastBroadcast := none } else s) ∧
      s'.lastBroadcast = (if m = 1 then some 1 else none) :=
  @Dnp3.Proofs.C07app.getResponseIin_after_broadcast s s' m i1 i2 hb h

/-- after a broadcast the next solicited response carries IIN1.0 and, for a mandatory-confirm
    broadcast (mode 1), has CON set; `lastBroadcast` is cleared unless mode 1 -/
theorem writeSolicited_after_broadcast (a a' : Acc) (dst : Nat) (r r' : Resp) (m : Nat)
    (hb : a.1.lastBroadcast = some m) (h : writeSolicited a dst r = some (a', r')) :
    r'.iin1 % 2 = 1 ∧ (m = 1 → r'.ctrl.con = true) ∧ (m ≠ 1 → r'.ctrl = r.ctrl) ∧
    a'.1.lastBroadcast = (if m = 1 then some 1 else none) ∧
    ∃ bytes, a'.2 = a.2 ++ [.tx dst bytes] ∧ bytes.take 4 = respHeader r' :=
  @Dnp3.Proofs.C07app.writeSolicited_after_broadcast a a' dst r r' m hb h

end Dnp3.Props.C07
