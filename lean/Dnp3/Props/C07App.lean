import Dnp3.Model.OutstationTrace
import Dnp3.Proofs.OutstationC07
/-!
# C07 (application part) — fragments from a foreign master or by broadcast

"An outstation executes and answers application fragments only from its configured master
address unless told to accept any master, and it transmits nothing in reply to a broadcast."

Defect D6 (fragments with a header-level error were answered with IIN2.0 even to a foreign master
or to a broadcast, and aborted a solicited confirm wait) is REPAIRED; the statements are the full ones:

* `foreign_master_silent` (+ the per-mode equations): EVERY accepted fragment (`RxAccepted`) from a
  foreign master, whatever its octets (well-formed request, header-level error, one octet; unicast or
  broadcast), only advances the frame counter; any two give the same step result in every mode.
* broadcast from an accepted master: parses as a request (function ≠ CONFIRM) - `broadcast_silent`,
  `processBroadcast_silent`, `broadcast_silent_unsolWait_step`: callbacks only; does not parse as a
  request (`HeaderBad`) - `runPass_broadcast_headerError`, `unsolWaitOnFragment_broadcast_headerError`,
  `solWaitOnFragment_headerBad_aborts`, `broadcast_headerError_*_step`: nothing is written (in the
  solicited confirm wait the series is aborted, as by every broadcast); `headerBad_or_request`: these
  are all cases.
* `broadcast_never_answered`: in EVERY mode, for EVERY accepted broadcast fragment other than a CONFIRM
  (any source, any octets), no output of the whole step is a solicited response.
* the UNICAST header-error fragment of an accepted master is still answered with IIN2.0:
  `header_error_answered_idle_step_outputs`, `header_error_answered_unsolWait_step`.
* `*_example`: the inputs of the former D6 counterexamples, now silent.

Statements restated verbatim from `Dnp3.Proofs.OutstationC07`.
-/
namespace Dnp3.Props.C07
open Dnp3 Dnp3.Proofs.C07app

theorem popRequest_foreign_master_silent (s : OState) (f : Frag)
    (hany : s.cfg.anymaster = false) (hsrc : f.src ≠ s.cfg.master) :
    popRequest { s with pending := some f } = ({ s with pending := none }, .nothing) :=
  @Dnp3.Proofs.C07app.popRequest_foreign_master_silent s f hany hsrc

/-- fragment of a foreign master (ANY octets) while waiting for a solicited confirm: no output, the
    wait goes on, only the frame counter advances (and the fragment is consumed) -/
theorem foreign_master_silent_solWait (env : OEnv) (s : OState) (src dst : Nat) (data : List Nat)
    (b : Option Nat) (series : Series) (deadline : Nat) (cont : SolCont)
    (hmode : s.mode = .solWait series deadline cont)
    (hacc : RxAccepted env src dst data b)
    (hany : s.cfg.anymaster = false) (hsrc : src ≠ s.cfg.master) :
    Outstation.step env s (.rx src dst data) =
      ({ s with frameId := (s.frameId + 1) % 4294967296, pending := none }, []) :=
  @Dnp3.Proofs.C07app.foreign_master_silent_solWait env s src dst data b series deadline cont hmode hacc hany hsrc

/-- fragment of a foreign master (ANY octets) while waiting for an unsolicited confirm -/
theorem foreign_master_silent_unsolWait (env : OEnv) (s : OState) (src dst : Nat) (data : List Nat)
    (b : Option Nat) (resp : Resp) (isNull : Bool) (retries : Option Nat) (deadline : Nat)
    (hmode : s.mode = .unsolWait resp isNull retries deadline)
    (hacc : RxAccepted env src dst data b)
    (hany : s.cfg.anymaster = false) (hsrc : src ≠ s.cfg.master) :
    Outstation.step env s (.rx src dst data) =
      ({ s with frameId := (s.frameId + 1) % 4294967296, pending := none }, []) :=
  @Dnp3.Proofs.C07app.foreign_master_silent_unsolWait env s src dst data b resp isNull retries deadline hmode hacc hany hsrc

/-- in idle mode the pass runs, but exactly as if no fragment had arrived: the step equals an
    idle pass from the state whose frame counter advanced and whose reader is empty -/
theorem foreign_master_silent_idle (env : OEnv) (s : OState) (src dst : Nat) (data : List Nat)
    (b : Option Nat) (next : NextIdle)
    (hmode : s.mode = .idle next)
    (hacc : RxAccepted env src dst data b)
    (hany : s.cfg.anymaster = false) (hsrc : src ≠ s.cfg.master) :
    Outstation.step env s (.rx src dst data) =
      finishStep (settle 8 (afterRequest (runPass (passFuel - 1))
        ({ s with frameId := (s.frameId + 1) % 4294967296, notified := false, pending := none }, []))) :=
  @Dnp3.Proofs.C07app.foreign_master_silent_idle env s src dst data b next hmode hacc hany hsrc

/-- MAIN (target 1): in every mode, a fragment from a foreign master that passes the address/length
    filters has no influence beyond advancing the frame counter, WHATEVER ITS OCTETS (a well-formed
    request, a fragment with a header-level error, a single octet): any two such fragments
    (different sources, destinations, contents) give the same step result -/
theorem foreign_master_silent (env : OEnv) (s : OState)
    (src dst : Nat) (data : List Nat) (b : Option Nat)
    (src' dst' : Nat) (data' : List Nat) (b' : Option Nat)
    (hany : s.cfg.anymaster = false)
    (hacc : RxAccepted env src dst data b) (hsrc : src ≠ s.cfg.master)
    (hacc' : RxAccepted env src' dst' data' b') (hsrc' : src' ≠ s.cfg.master) :
    Outstation.step env s (.rx src dst data) = Outstation.step env s (.rx src' dst' data') :=
  @Dnp3.Proofs.C07app.foreign_master_silent env s src dst data b src' dst' data' b' hany hacc hsrc hacc' hsrc'

/-- `foreign_master_error_silent_example`: unknown function code 70 from master 99
    (configured master 1, `anymaster = false`) produces no output at all (the step's output list has
    length 0; before the repair it was answered to 99 with IIN2.0: `[(99, [C3 81 80 01])]`) -/
theorem foreign_master_error_silent_example :
    cfg0.anymaster = false ∧ cfg0.master = 1 ∧
    (Outstation.step {} (Outstation.start cfg0 0).1 (.rx 99 1024 [0xC3, 70])).2.length = 0 :=
  @Dnp3.Proofs.C07app.foreign_master_error_silent_example 

/-- UNS bit on a READ from master 99: no output either -/
theorem foreign_master_uns_read_silent_example :
    (Outstation.step {} (Outstation.start cfg0 0).1 (.rx 99 1024 [0xD3, 1])).2.length = 0 :=
  @Dnp3.Proofs.C07app.foreign_master_uns_read_silent_example 

/-- in a solicited confirm wait (reached here by a mandatory-confirm broadcast followed by a
    RECORD_CURRENT_TIME request, whose response then asks for a confirm) the foreign header-error
    fragment has no effect: no callback, no transmission, the series is NOT aborted - the confirm of
    the configured master that follows is still accepted (`solConfirmed 4`) -/
theorem foreign_master_error_keeps_solWait_example :
    (Outstation.run {} (Outstation.start cfg0 0).1
        [.rx 1 0xFFFE [0xC3, 24], .rx 1 1024 [0xC4, 24], .rx 99 1024 [0xC3, 70], .rx 1 1024 [0xC4, 0]]).2.map
      (fun o => (cbs o, txFrags o)) =
    [([.broadcast 24 .processed], []),
     ([.solWait 4], [(1, [0xE4, 0x81, 0x81, 0x00])]),
     ([], []),
     ([.solConfirmed 4, .beginConfirm, .endConfirm 0 0 0], [])] :=
  @Dnp3.Proofs.C07app.foreign_master_error_keeps_solWait_example 

/-- in an unsolicited confirm wait (null unsolicited after start): no output, and the wait goes on
    (the confirm of the configured master that follows is accepted) -/
theorem foreign_master_error_silent_unsolWait_example :
    (Outstation.run {} (Outstation.start { cfg0 with unsolicited := true } 0).1
        [.rx 99 1024 [0xC3, 70]]).2.map List.length = [0] ∧
    (Outstation.run {} (Outstation.start { cfg0 with unsolicited := true } 0).1
        [.rx 99 1024 [0xC3, 70], .rx 1 1024 [0xD0, 0]]).2.map (fun o => (cbs o, txFrags o)) =
      [([], []), ([.unsolConfirmed 0], [])] :=
  @Dnp3.Proofs.C07app.foreign_master_error_silent_unsolWait_example 

/-- every fragment either parses as a request or is `HeaderBad` -/
theorem headerBad_or_request (data : List Nat) :
    HeaderBad data ∨ ∃ ctrl func objects raw, parseRequest data = .request ctrl func objects raw :=
  @Dnp3.Proofs.C07app.headerBad_or_request data

/-- `write_error_response` for a broadcast fragment: nothing at all happens (no transmission, no
    state change, no panic), whatever the sequence number -/
theorem writeErrorResponse_broadcast (a : Acc) (dst : Nat) (seq : Option Nat) :
    writeErrorResponse a dst true seq = some a :=
  @Dnp3.Proofs.C07app.writeErrorResponse_broadcast a dst seq

/-- `rejection_answered` (idle mode, universally quantified): for EVERY idle state, an accepted UNICAST
    fragment of an accepted master whose header does not parse as a request makes the step start its
    output with a response transmitted to that master, carrying IIN2.0, provided only that the
    database does not panic (`getResponseIin` answers).  (Before the repair of D6 this held for ANY
    source and for broadcasts too.) -/
theorem header_error_answered_idle_step_outputs (env : OEnv) (s : OState) (src dst : Nat) (data : List Nat)
    (next : NextIdle) (seq : Nat) (s' : OState) (i1 i2 : Nat)
    (hmode : s.mode = .idle next)
    (hacc : RxAccepted env src dst data none)
    (hsrc : s.cfg.anymaster = true ∨ src = s.cfg.master)
    (hp : parseRequest data = .headerError seq)
    (hiin : getResponseIin (onLinkActivity
        { s with frameId := (s.frameId + 1) % 4294967296, pending := none, notified := false })
      = some (s', i1, i2)) :
    ∃ rest, (Outstation.step env s (.rx src dst data)).2 =
      .tx src (errorBytes seq (decide (s'.lastBroadcast = some 1)) i1 i2) :: rest :=
  @Dnp3.Proofs.C07app.header_error_answered_idle_step_outputs env s src dst data next seq s' i1 i2 hmode hacc hsrc hp hiin

/-- step level, unsolicited confirm wait: the UNICAST fragment of an accepted master whose header
    does not parse as a request is answered; the step's only output is the transmission to `src` -/
theorem header_error_answered_unsolWait_step (env : OEnv) (s : OState) (src dst : Nat) (data : List Nat)
    (resp : Resp) (isNull : Bool) (retries : Option Nat) (deadline : Nat)
    (seq : Nat) (s' : OState) (i1 i2 : Nat)
    (hmode : s.mode = .unsolWait resp isNull retries deadline)
    (hacc : RxAccepted env src dst data none)
    (hsrc : s.cfg.anymaster = true ∨ src = s.cfg.master)
    (hp : parseRequest data = .headerError seq)
    (hiin : getResponseIin { s with frameId := (s.frameId + 1) % 4294967296, pending := none, deferred := none }
      = some (s', i1, i2)) :
    Outstation.step env s (.rx src dst data) =
      ({ s' with solBuf := writeAt s'.solBuf 0 (errorBytes seq (decide (s'.lastBroadcast = some 1)) i1 i2) },
       [.tx src (errorBytes seq (decide (s'.lastBroadcast = some 1)) i1 i2)]) :=
  @Dnp3.Proofs.C07app.header_error_answered_unsolWait_step env s src dst data resp isNull retries deadline seq s' i1 i2 hmode hacc hsrc hp hiin

theorem classify_broadcast (s : OState) (f : Frag) (ctrl : AppCtrl) (func : Nat)
    (objects : Except Nat (List ObjHdr)) (m : Nat) (hb : f.broadcast = some m) (hf : func ≠ 0) :
    classify s f ctrl func objects = .broadcast m :=
  @Dnp3.Proofs.C07app.classify_broadcast s f ctrl func objects m hb hf

/-- output of `process_broadcast`: callbacks only, ending with the `broadcast` callback;
    `lastBroadcast` records the confirm mode -/
theorem processBroadcast_silent (a : Acc) (f : Frag) (m : Nat) (ctrl : AppCtrl) (func : Nat)
    (objects : Except Nat (List ObjHdr)) (raw : List Nat) (a' : Acc)
    (h : processBroadcast a f m ctrl func objects raw = some a') :
    a'.1.lastBroadcast = some m ∧
    (a'.1.pending = a.1.pending ∧ a'.1.mode = a.1.mode ∧ a'.1.cfg = a.1.cfg ∧ a'.1.deferred = a.1.deferred) ∧
    ∃ l action, a'.2 = a.2 ++ l ++ [.cb (.broadcast func action)] ∧ OnlyCb l :=
  @Dnp3.Proofs.C07app.processBroadcast_silent a f m ctrl func objects raw a' h

/-- MAIN (target 3), idle processing of a well-formed broadcast request -/
theorem broadcast_silent (a : Acc) (f : Frag) (ctrl : AppCtrl) (func : Nat)
    (objects : Except Nat (List ObjHdr)) (raw : List Nat) (m : Nat)
    (hb : f.broadcast = some m) (hf : func ≠ 0) :
    ∃ a', handleRequestFromIdle a f ctrl func objects raw = some (a', none) ∧
      a'.1.lastBroadcast = some m ∧
      (∃ l action, a'.2 = a.2 ++ l ++ [.cb (.broadcast func action)] ∧ OnlyCb l) ∧
      txFrags a'.2 = txFrags a.2 :=
  @Dnp3.Proofs.C07app.broadcast_silent a f ctrl func objects raw m hb hf

/-- BROADCAST, step level, unsolicited confirm wait: the whole step emits callbacks only (the last one
    being the `broadcast` callback), transmits nothing, stays in the wait -/
theorem broadcast_silent_unsolWait_step (env : OEnv) (s : OState) (src dst : Nat) (data : List Nat) (m : Nat)
    (resp : Resp) (isNull : Bool) (retries : Option Nat) (deadline : Nat)
    (ctrl : AppCtrl) (func : Nat) (objects : Except Nat (List ObjHdr)) (raw : List Nat)
    (hmode : s.mode = .unsolWait resp isNull retries deadline)
    (hacc : RxAccepted env src dst data (some m))
    (hsrc : s.cfg.anymaster = true ∨ src = s.cfg.master)
    (hp : parseRequest data = .request ctrl func objects raw) (hf : func ≠ 0) :
    ∃ s' l action, Outstation.step env s (.rx src dst data) = (s', l ++ [.cb (.broadcast func action)]) ∧
      OnlyCb l ∧ txFrags (l ++ [.cb (.broadcast func action)]) = [] ∧
      s'.lastBroadcast = some m ∧ s'.pending = none ∧ s'.mode = s.mode :=
  @Dnp3.Proofs.C07app.broadcast_silent_unsolWait_step env s src dst data m resp isNull retries deadline ctrl func objects raw hmode hacc hsrc hp hf

/-- idle pass on a broadcast fragment with a header-level error: `writeErrorResponse` transmits
    nothing; the pass continues exactly as after a consumed fragment - like `runPass_foreign` /
    `runPass_no_fragment`, but the link activity is recorded (the fragment was addressed to us by
    an accepted master) -/
theorem runPass_broadcast_headerError (s : OState) (outs : List OOut) (fuel : Nat) (f : Frag) (m : Nat)
    (hpend : s.pending = some f) (hsrc : s.cfg.anymaster = true ∨ f.src = s.cfg.master)
    (hb : f.broadcast = some m) (hp : HeaderBad f.data) :
    runPass (fuel + 1) (s, outs) =
      afterRequest (runPass fuel) (onLinkActivity { s with notified := false, pending := none }, outs) :=
  @Dnp3.Proofs.C07app.runPass_broadcast_headerError s outs fuel f m hpend hsrc hb hp

/-- unsolicited confirm wait, broadcast fragment with a header-level error: consumed; no transmission,
    no callback, the wait goes on; the only state change besides `pending := none` is that a deferred
    READ is dropped (as for every fragment other than a confirm handled in this wait) -/
theorem unsolWaitOnFragment_broadcast_headerError (a : Acc) (resp : Resp) (isNull : Bool) (f : Frag) (m : Nat)
    (hpend : a.1.pending = some f) (hsrc : a.1.cfg.anymaster = true ∨ f.src = a.1.cfg.master)
    (hb : f.broadcast = some m) (hp : HeaderBad f.data) :
    unsolWaitOnFragment a resp isNull = .blocked ({ a.1 with pending := none, deferred := none }, a.2) :=
  @Dnp3.Proofs.C07app.unsolWaitOnFragment_broadcast_headerError a resp isNull f m hpend hsrc hb hp

/-- solicited confirm wait, fragment of an accepted master with a header-level error - in particular a
    BROADCAST one (there is no hypothesis on `f.broadcast`): as for every well-formed broadcast
    (`solWaitOnFragment_broadcast`) and every new request the response series is aborted
    (`Confirm::NewRequest`: callback `solNewRequest`, `database.reset()`); this is not a transmission
    in reply.  The fragment is retained (`pending` is still `some f`) and is then processed from idle,
    i.e. for a broadcast by `runPass_broadcast_headerError`, silently -/
theorem solWaitOnFragment_headerBad_aborts (a : Acc) (series : Series) (deadline : Nat) (cont : SolCont)
    (f : Frag)
    (hpend : a.1.pending = some f) (hsrc : a.1.cfg.anymaster = true ∨ f.src = a.1.cfg.master)
    (hp : HeaderBad f.data) :
    solWaitOnFragment a series deadline cont =
      abortSeries (emitCb (onLinkActivity a.1, a.2) .solNewRequest) cont ∧
    (emitCb (onLinkActivity a.1, a.2) .solNewRequest).1.pending = some f :=
  @Dnp3.Proofs.C07app.solWaitOnFragment_headerBad_aborts a series deadline cont f hpend hsrc hp

/-- BROADCAST with a header-level error, step level, unsolicited confirm wait: the step has NO output;
    the fragment is consumed and a deferred READ dropped, nothing else changes -/
theorem broadcast_headerError_silent_unsolWait_step (env : OEnv) (s : OState) (src dst : Nat) (data : List Nat)
    (m : Nat) (resp : Resp) (isNull : Bool) (retries : Option Nat) (deadline : Nat)
    (hmode : s.mode = .unsolWait resp isNull retries deadline)
    (hacc : RxAccepted env src dst data (some m))
    (hsrc : s.cfg.anymaster = true ∨ src = s.cfg.master)
    (hp : HeaderBad data) :
    Outstation.step env s (.rx src dst data) =
      ({ s with frameId := (s.frameId + 1) % 4294967296, pending := none, deferred := none }, []) :=
  @Dnp3.Proofs.C07app.broadcast_headerError_silent_unsolWait_step env s src dst data m resp isNull retries deadline hmode hacc hsrc hp

/-- BROADCAST with a header-level error, step level, idle: nothing is written for the fragment; the step
    is the idle pass that follows a consumed fragment (cf. `foreign_master_silent_idle`; here the link
    activity is recorded) -/
theorem broadcast_headerError_silent_idle_step (env : OEnv) (s : OState) (src dst : Nat) (data : List Nat)
    (m : Nat) (next : NextIdle)
    (hmode : s.mode = .idle next)
    (hacc : RxAccepted env src dst data (some m))
    (hsrc : s.cfg.anymaster = true ∨ src = s.cfg.master)
    (hp : HeaderBad data) :
    Outstation.step env s (.rx src dst data) =
      finishStep (settle 8 (afterRequest (runPass (passFuel - 1))
        (onLinkActivity { s with frameId := (s.frameId + 1) % 4294967296, notified := false, pending := none }, []))) :=
  @Dnp3.Proofs.C07app.broadcast_headerError_silent_idle_step env s src dst data m next hmode hacc hsrc hp

/-- BROADCAST with a header-level error, step level, solicited confirm wait: exactly as for a
    well-formed broadcast (`broadcast_solWait_step`) the series is aborted, then the retained fragment
    is processed by the idle pass (`resumeAfterSol` → `runPass`), where it is silent -/
theorem broadcast_headerError_solWait_step (env : OEnv) (s : OState) (src dst : Nat) (data : List Nat)
    (m : Nat) (series : Series) (deadline : Nat) (cont : SolCont)
    (hmode : s.mode = .solWait series deadline cont)
    (hacc : RxAccepted env src dst data (some m))
    (hsrc : s.cfg.anymaster = true ∨ src = s.cfg.master)
    (hp : HeaderBad data) :
    Outstation.step env s (.rx src dst data) =
      finishStep (settle 8 (abortSeries
        (onLinkActivity (rxState s src (some m) data), [.cb .solNewRequest]) cont)) :=
  @Dnp3.Proofs.C07app.broadcast_headerError_solWait_step env s src dst data m series deadline cont hmode hacc hsrc hp

/-- `broadcast_error_silent_example` (D6 repaired, second half): a broadcast fragment (dst 0xFFFF)
    with unknown function code 70 is NOT answered and produces no output at all (before the repair:
    `C3 81 80 01` to its source); general statements: `runPass_broadcast_headerError`,
    `unsolWaitOnFragment_broadcast_headerError`, `solWaitOnFragment_headerBad_aborts`,
    step level `broadcast_headerError_silent_{idle,unsolWait}_step`, `broadcast_never_answered` -/
theorem broadcast_error_silent_example :
    (Outstation.step {} (Outstation.start cfg0 0).1 (.rx 1 0xFFFF [0xC3, 70])).2.length = 0 ∧
    -- also when broadcast support is disabled by configuration
    (Outstation.step {} (Outstation.start { cfg0 with broadcast := false } 0).1 (.rx 1 0xFFFF [0xC3, 70])).2.length = 0 ∧
    -- and from a foreign master to the broadcast address, in the unsolicited confirm wait
    (Outstation.run {} (Outstation.start { cfg0 with unsolicited := true } 0).1
        [.rx 99 0xFFFF [0xC3, 70]]).2.map List.length = [0] ∧
    -- from the configured master to the broadcast address, in the unsolicited confirm wait
    (Outstation.run {} (Outstation.start { cfg0 with unsolicited := true } 0).1
        [.rx 1 0xFFFF [0xC3, 70]]).2.map List.length = [0] ∧
    -- in the solicited confirm wait the series is aborted (as by every broadcast), nothing is transmitted
    (Outstation.run {} (Outstation.start cfg0 0).1
        [.rx 1 0xFFFE [0xC3, 24], .rx 1 1024 [0xC4, 24], .rx 1 0xFFFF [0xC3, 70]]).2.map
      (fun o => (cbs o, txFrags o)) =
    [([.broadcast 24 .processed], []),
     ([.solWait 4], [(1, [0xE4, 0x81, 0x81, 0x00])]),
     ([.solNewRequest], [])] :=
  @Dnp3.Proofs.C07app.broadcast_error_silent_example 

/-- step level, unsolicited confirm wait, EVERY accepted broadcast fragment other than a CONFIRM
    (any source, any octets): the whole step emits application callbacks only -/
theorem broadcast_unsolWait_onlyCb (env : OEnv) (s : OState) (src dst : Nat) (data : List Nat) (m : Nat)
    (resp : Resp) (isNull : Bool) (retries : Option Nat) (deadline : Nat)
    (hmode : s.mode = .unsolWait resp isNull retries deadline)
    (hacc : RxAccepted env src dst data (some m))
    (hnc : ∀ ctrl objects raw, parseRequest data ≠ .request ctrl 0 objects raw) :
    OnlyCb (Outstation.step env s (.rx src dst data)).2 ∧
      txFrags (Outstation.step env s (.rx src dst data)).2 = [] :=
  @Dnp3.Proofs.C07app.broadcast_unsolWait_onlyCb env s src dst data m resp isNull retries deadline hmode hacc hnc

/-- MAIN (target 3, all modes, all contents): handling an accepted broadcast fragment never results in
    a solicited response.  For EVERY state and EVERY accepted fragment addressed to a broadcast
    address (any source - accepted or foreign master -, any octets: a well-formed request, a header-level
    error, a single octet) other than a CONFIRM (function code 0, which is not treated as a broadcast:
    `broadcast_confirm_idle_ignored`, `broadcast_confirm_solWait_accepted`), none of the outputs of
    the whole step - the handling of the fragment, the abort of a solicited confirm wait, the rest
    of the idle pass, the hand-over of the retained fragment to a following confirm wait (`settle`) -
    is a transmission with the function octet 0x81.  (What the step may transmit: unsolicited
    responses, function octet 0x82, of the pass that follows, and link status requests.)
    Hypothesis `hdef`: no READ is deferred - otherwise ITS response is written by the pass - unless the
    outstation is in the unsolicited confirm wait, where the broadcast drops the deferred READ. -/
theorem broadcast_never_answered (env : OEnv) (s : OState) (src dst : Nat) (data : List Nat) (m : Nat)
    (hacc : RxAccepted env src dst data (some m))
    (hnc : ∀ ctrl objects raw, parseRequest data ≠ .request ctrl 0 objects raw)
    (hdef : s.deferred = none ∨ ∃ resp isNull retries deadline, s.mode = .unsolWait resp isNull retries deadline) :
    NoSol (Outstation.step env s (.rx src dst data)).2 :=
  @Dnp3.Proofs.C07app.broadcast_never_answered env s src dst data m hacc hnc hdef

/-- in terms of `txFrags`: no transmitted application fragment of the step is a solicited response -/
theorem broadcast_never_answered_txFrags (env : OEnv) (s : OState) (src dst : Nat) (data : List Nat) (m : Nat)
    (hacc : RxAccepted env src dst data (some m))
    (hnc : ∀ ctrl objects raw, parseRequest data ≠ .request ctrl 0 objects raw)
    (hdef : s.deferred = none ∨ ∃ resp isNull retries deadline, s.mode = .unsolWait resp isNull retries deadline) :
    ∀ p ∈ txFrags (Outstation.step env s (.rx src dst data)).2, p.2[1]? ≠ some 0x81 :=
  @Dnp3.Proofs.C07app.broadcast_never_answered_txFrags env s src dst data m hacc hnc hdef

theorem getResponseIin_after_broadcast (s s' : OState) (m i1 i2 : Nat)
    (hb : s.lastBroadcast = some m) (h : getResponseIin s = some (s', i1, i2)) :
    i1 % 2 = 1 ∧ s' = (if m ≠ 1 then { s with lastBroadcast := none } else s) ∧
      s'.lastBroadcast = (if m = 1 then some 1 else none) :=
  @Dnp3.Proofs.C07app.getResponseIin_after_broadcast s s' m i1 i2 hb h

/-- after a broadcast the next solicited response carries IIN1.0 and, for a mandatory-confirm
    broadcast (mode 1), has CON set; `lastBroadcast` is cleared unless mode 1 -/
theorem writeSolicited_after_broadcast (a a' : Acc) (dst : Nat) (r r' : Resp) (m : Nat)
    (hb : a.1.lastBroadcast = some m) (h : writeSolicited a dst r = some (a', r')) :
    r'.iin1 % 2 = 1 ∧ (m = 1 → r'.ctrl.con = true) ∧ (m ≠ 1 → r'.ctrl = r.ctrl) ∧
    a'.1.lastBroadcast = (if m = 1 then some 1 else none) ∧
    ∃ bytes, a'.2 = a.2 ++ [.tx dst bytes] ∧ bytes.take 4 = respHeader r' :=
  @Dnp3.Proofs.C07app.writeSolicited_after_broadcast a a' dst r r' m hb h

end Dnp3.Props.C07
