import Dnp3.Model.MasterSession
import Dnp3.Proofs.Master
import Dnp3.Proofs.MasterC17Trace
/-!
# C17 — Master start-up and restart handling runs in order and gates unsolicited data

`TaskStates.next` (model of `association.rs::TaskStates::next`), `AutoTaskState` and
`ExponentialBackOff` (`app/retry.rs`), the restart / need-time / overflow reactions of
`process_iin`, and the unsolicited gate of `handle_unsolicited_response`.
-/
namespace Dnp3.Props.C17
open Dnp3 Dnp3.Master Dnp3.Proofs.MasterC17Trace Dnp3.Proofs.MasterC17Trace.Ord

/-- the automatic tasks in their fixed order, with "is configured" and the choice they produce -/
def slots (t : TaskStates) (cfg : ACfg) (_evAvail : Nat) : List (Bool × AutoState × AutoChoice) :=
  [ (true, t.clearRestart, .clearRestart),
    (cfg.dis ≠ 0, t.disable, .disableUnsol),
    (cfg.int ≠ 0, t.integrity, .integrity),
    (cfg.ts.isSome, t.timeSync, .timeSync (cfg.ts.getD .lan)),
    (cfg.en ≠ 0, t.enable, .enableUnsol) ]

/-- the first configured slot that is not idle decides — whether it can run now or not -/
def firstDue : List (Bool × AutoState × AutoChoice) → Option (AutoState × AutoChoice)
  | [] => none
  | (conf, st, c) :: rest => if conf && !st.isIdle then some (st, c) else firstDue rest

/-- `auto_priority`: `TaskStates.next` returns the first due task in the order clear-restart,
    disable-unsolicited, integrity, time-sync, enable-unsolicited (each subject to configuration);
    a due task that is in back-off yields its retry time and thereby BLOCKS the lower ones; only
    when none of the five is due does the event scan get its turn -/
theorem auto_priority (t : TaskStates) (cfg : ACfg) (ev now : Nat) :
    t.next cfg ev now =
      (match firstDue (slots t cfg ev) with
       | some (st, c) => st.createNext now c
       | none =>
         if ev &&& cfg.evscan ≠ 0 then t.eventScan.createNext now (.eventScan (ev &&& cfg.evscan)) else .none) := by
  unfold TaskStates.next slots firstDue firstDue firstDue firstDue firstDue firstDue
  cases h1 : t.clearRestart.isIdle <;> simp [h1]
  by_cases h2 : cfg.dis = 0 <;> cases h3 : t.disable.isIdle <;> simp [h2, h3] <;>
  by_cases h4 : cfg.int = 0 <;> cases h5 : t.integrity.isIdle <;> simp [h4, h5] <;>
  cases h6 : cfg.ts <;> cases h7 : t.timeSync.isIdle <;> simp [h6, h7] <;>
  by_cases h8 : cfg.en = 0 <;> cases h9 : t.enable.isIdle <;> simp [h8, h9]

/-- what `createNext` hands out: a pending task runs now, a failed one not before its retry time -/
theorem createNext_cases {α : Type} (st : AutoState) (now : Nat) (x : α) :
    (st = .idle ∧ st.createNext now x = .none) ∨
    (st = .pending ∧ st.createNext now x = .now x) ∨
    (∃ l nb, st = .failed l nb ∧ nb ≤ now ∧ st.createNext now x = .now x) ∨
    (∃ l nb, st = .failed l nb ∧ now < nb ∧ st.createNext now x = .notBefore nb) := by
  cases st with
  | idle => simp [AutoState.createNext]
  | pending => simp [AutoState.createNext]
  | failed l nb =>
    by_cases h : nb ≤ now
    · right; right; left
      exact ⟨l, nb, rfl, h, by simp [AutoState.createNext, h]⟩
    · right; right; right
      exact ⟨l, nb, rfl, by omega, by simp [AutoState.createNext, h]⟩

/-- a failed higher task blocks the lower ones until its retry time: e.g. a failed
    DISABLE_UNSOLICITED keeps the integrity poll and ENABLE_UNSOLICITED back -/
theorem failed_disable_blocks_lower (t : TaskStates) (cfg : ACfg) (ev now l nb : Nat)
    (h0 : t.clearRestart = .idle) (h1 : cfg.dis ≠ 0) (h2 : t.disable = .failed l nb) (h3 : now < nb) :
    t.next cfg ev now = .notBefore nb := by
  unfold TaskStates.next
  have : ¬ now ≥ nb := by omega
  simp [h0, h1, h2, AutoState.isIdle, AutoState.createNext, this]

/-- clear-restart comes first whenever it is due -/
theorem clear_restart_first (t : TaskStates) (cfg : ACfg) (ev now : Nat) (h : t.clearRestart = .pending) :
    t.next cfg ev now = .now .clearRestart := by
  unfold TaskStates.next
  simp [h, AutoState.isIdle, AutoState.createNext]

example : ({} : TaskStates).next {} 0 0 = .now .disableUnsol := by decide
example : ({ disable := .idle } : TaskStates).next {} 0 0 = .now .integrity := by decide
example : ({ disable := .idle, integrity := .idle } : TaskStates).next {} 0 0 = .now .enableUnsol := by decide
example : ({ disable := .idle, integrity := .idle, timeSync := .pending } : TaskStates).next { ts := some .lan } 0 0 =
    .now (.timeSync .lan) := by decide

/-- periodic polls and the keep-alive run only when no automatic task is due
    (`Association::get_next_task`) -/
theorem polls_after_auto_tasks (a : Assoc) (now : Nat) (h : a.auto.next a.cfg a.evAvail now ≠ .none) :
    a.getNextTask now = (match a.auto.next a.cfg a.evAvail now with
      | .now c => .now (c.toTask a.cfg)
      | .notBefore t => .notBefore t
      | .none => .none) := by
  unfold Assoc.getNextTask
  cases hn : a.auto.next a.cfg a.evAvail now <;> simp_all

/-- a response showing the restart indication re-arms clear-restart (first), integrity and
    enable — when clear-restart is not already under way -/
theorem restart_rearms (a : Assoc) (iin1 iin2 : Nat) (h : iin1 &&& 0x80 ≠ 0) (hi : a.auto.clearRestart = .idle) :
    (a.processIin iin1 iin2).auto.clearRestart = .pending ∧ (a.processIin iin1 iin2).auto.integrity.isIdle = false ∧
    (a.processIin iin1 iin2).auto.enable.isIdle = false ∧ (a.processIin iin1 iin2).integrityDone = false := by
  have hd : ∀ s : AutoState, s.demand.isIdle = false := by
    intro s; cases s <;> rfl
  -- what the later stages of `process_iin` preserve
  have keep : ∀ b : Assoc, b.auto.clearRestart = .pending → b.auto.integrity.isIdle = false → b.auto.enable.isIdle = false →
      b.integrityDone = false → ∀ c : Assoc,
      (c = b ∨ c = b.onNeedTime ∨ c = b.onOverflow ∨ (∃ ev, c = b.setEvents ev)) →
      c.auto.clearRestart = .pending ∧ c.auto.integrity.isIdle = false ∧ c.auto.enable.isIdle = false ∧ c.integrityDone = false := by
    intro b h1 h2 h3 h4 c hc
    rcases hc with hc | hc | hc | ⟨ev, hc⟩ <;> subst hc
    · exact ⟨h1, h2, h3, h4⟩
    · exact ⟨h1, h2, h3, h4⟩
    · unfold Assoc.onOverflow
      split
      · exact ⟨h1, hd _, h3, h4⟩
      · exact ⟨h1, h2, h3, h4⟩
    · unfold Assoc.setEvents
      simp only
      split
      · exact ⟨h1, h2, h3, h4⟩
      · exact ⟨h1, h2, h3, h4⟩
  unfold Assoc.processIin
  simp only [h, ne_eq, not_false_eq_true, if_true]
  have s0 : (a.onRestartObserved).auto.clearRestart = .pending ∧ (a.onRestartObserved).auto.integrity.isIdle = false ∧
      (a.onRestartObserved).auto.enable.isIdle = false ∧ (a.onRestartObserved).integrityDone = false := by
    unfold Assoc.onRestartObserved
    rw [hi]
    exact ⟨rfl, hd _, hd _, rfl⟩
  obtain ⟨a1, a2, a3, a4⟩ := s0
  have s1 := keep _ a1 a2 a3 a4 (if iin1 &&& 16 ≠ 0 then a.onRestartObserved.onNeedTime else a.onRestartObserved)
    (by split <;> simp)
  obtain ⟨b1, b2, b3, b4⟩ := s1
  have s2 := keep _ b1 b2 b3 b4
    (if iin2 &&& 8 ≠ 0 then (if iin1 &&& 16 ≠ 0 then a.onRestartObserved.onNeedTime else a.onRestartObserved).onOverflow
     else (if iin1 &&& 16 ≠ 0 then a.onRestartObserved.onNeedTime else a.onRestartObserved))
    (by split <;> simp)
  obtain ⟨c1, c2, c3, c4⟩ := s2
  exact keep _ c1 c2 c3 c4 _ (Or.inr (Or.inr (Or.inr ⟨_, rfl⟩)))

/-- `unsolicited_gated`: before the integrity poll has completed an unsolicited fragment with
    objects is neither delivered nor confirmed; an empty one is confirmed when it asks for it -/
theorem unsolicited_gated (last : Option UnsolKey) (r : Resp) (h : r.raw ≠ []) :
    handleUnsolicited false last r = ⟨false, false, false, false⟩ := by
  unfold handleUnsolicited
  cases hr : r.raw with
  | nil => exact absurd hr h
  | cons x xs => simp [List.isEmpty]

/-- a null unsolicited response (no objects; the object parse of a received fragment without
    objects always succeeds, `parseResponse_null_objects`) passes the gate -/
theorem unsolicited_null_confirmed (last : Option UnsolKey) (frag : List Nat) (r : Resp)
    (hp : parseResponse frag = some r) (h : r.raw = []) :
    (handleUnsolicited false last r).valid = true ∧ (handleUnsolicited false last r).confirm = r.ctrl.con := by
  have ho := Proofs.Master.parseResponse_null_objects frag r hp h
  unfold handleUnsolicited
  simp only [h, ho, List.isEmpty, Bool.false_or, if_true, Option.isNone_some, Bool.false_eq_true, if_false]
  split <;> simp

example : (parseResponse [0xF0, 0x82, 0x80, 0x00]).map (fun r => (r.unsol, r.raw, r.ctrl.con)) = some (true, [], true) := by decide

/-- the integrity poll counts as completed only when one is configured and has succeeded since
    the last (re)connect / restart indication -/
theorem integrity_complete_iff (a : Assoc) : a.isIntegrityComplete = true ↔ (a.cfg.int = 0 ∨ a.integrityDone = true) := by
  simp [Assoc.isIntegrityComplete]

-- ------------------------------------------------------------------------------------------
-- back-off
-- ------------------------------------------------------------------------------------------

/-- delay of the (k+1)-th consecutive failure -/
def nthDelay (rmin rmax : Nat) : Nat → Nat
  | 0 => Backoff.onFailure rmin rmax none
  | k+1 => Backoff.onFailure rmin rmax (some (nthDelay rmin rmax k))

/-- `backoff_law`: for `min ≤ max` the k-th consecutive failure is retried after
    `min(min · 2ᵏ, max)` (k counted from 0) -/
theorem backoff_law (rmin rmax : Nat) (h : rmin ≤ rmax) (k : Nat) :
    nthDelay rmin rmax k = min (rmin * 2 ^ k) rmax := by
  induction k with
  | zero => simp [nthDelay, Backoff.onFailure, Nat.min_eq_left h]
  | succ k ih =>
    simp only [nthDelay, Backoff.onFailure, ih, Nat.pow_succ]
    have h2 : rmin * (2 ^ k * 2) = 2 * (rmin * 2 ^ k) := by
      rw [Nat.mul_comm (2 ^ k) 2, ← Nat.mul_assoc, Nat.mul_comm rmin 2, Nat.mul_assoc]
    rw [h2]
    omega

/-- the delays never exceed the maximum when `min ≤ max` -/
theorem backoff_bounded (rmin rmax : Nat) (h : rmin ≤ rmax) (k : Nat) : nthDelay rmin rmax k ≤ rmax := by
  rw [backoff_law rmin rmax h k]
  exact Nat.min_le_right _ _

/-- remark: `RetryStrategy::new` accepts `min > max`; the first delay then exceeds the maximum
    (configuration validation, not a protocol finding) -/
theorem backoff_first_exceeds_max (rmin rmax : Nat) (h : rmax < rmin) : rmax < nthDelay rmin rmax 0 := by
  simp [nthDelay, Backoff.onFailure, h]

/-- the state machine follows the law: after k+1 consecutive failures the task is in back-off
    with the k-th delay, not before `now + delay` -/
def failTimes (cfg : ACfg) (now : Nat) : Nat → AutoState → AutoState
  | 0, s => s
  | k+1, s => (failTimes cfg now k s).failure cfg now

theorem failure_sequence (cfg : ACfg) (now : Nat) (k : Nat) :
    failTimes cfg now (k + 1) .pending = .failed (nthDelay cfg.rmin cfg.rmax k) (now + nthDelay cfg.rmin cfg.rmax k) := by
  induction k with
  | zero => simp [failTimes, AutoState.failure, nthDelay]
  | succ k ih =>
    rw [failTimes, ih]
    simp [AutoState.failure, nthDelay]

/-- success resets the back-off: the next failure starts again at the minimum -/
theorem success_resets (x : Assoc) (id : AutoId) (now : Nat) :
    ((x.doneAuto id).failAuto id now).auto.get id = .failed x.cfg.rmin (now + x.cfg.rmin) := by
  cases id <;> simp [Assoc.doneAuto, Assoc.failAuto, TaskStates.set, TaskStates.get, AutoState.failure, Backoff.onFailure]

example : nthDelay 1000 10000 0 = 1000 ∧ nthDelay 1000 10000 1 = 2000 ∧ nthDelay 1000 10000 3 = 8000 ∧
    nthDelay 1000 10000 4 = 10000 ∧ nthDelay 1000 10000 9 = 10000 := by decide

/-- a reconnect starts the sequence again: disable, integrity, enable pending; nothing else -/
theorem reset_restarts_startup : ({} : TaskStates) =
    { disable := .pending, integrity := .pending, enable := .pending, clearRestart := .idle, timeSync := .idle, eventScan := .idle } := rfl

-- ===== BEGIN C17 trace theorems (generated by tools/mkwrappers.py from Dnp3/Proofs/MasterC17Trace.lean) =====
/-! ## Whole-trace theorems (`Master.run`)

Definitions and the inductive invariants are in `Dnp3/Proofs/MasterC17Trace.lean`.

GATING.  `Gated addr outs`: every `deliverBegin (.assoc addr) .unsolicited ..` in `outs` that no
`taskSuccess addr .startupIntegrity ..` precedes is directly followed by its `deliverEnd` (an empty delivery).
`Closed addr s`: the integrity poll of `addr` has not completed in `s` (every entry for `addr` has
`isIntegrityComplete = false`).  `InputOk addr i`: `i` does not add `addr` with `cfg.int = 0`.
`Inv addr (s', outs)`: `Gated addr outs ∧ (outs contains the integrity success ∨ Closed addr s')`.

ORDERING.  `Which = disInt | intEn` selects the pair (DISABLE_UNSOLICITED before integrity | integrity before
ENABLE_UNSOLICITED).  `Ordered w addr outs`: every `taskStart addr <later task>` in `outs` is preceded by a completion of
the earlier task (`Trig`).  `Pend w addr s`: the earlier task is configured and not idle for `addr`; `QOk w addr s`: no
queued user request is the later task; `OInputOk w addr i`: `i` neither adds `addr` without the earlier task nor
queues the later (automatic) task as a user request. -/

/-- GATING, trace theorem from the start state: in ANY run of the master from its start state — any inputs: associations
    added / removed, connects, disconnects, responses with any IIN bits, failures, timeouts, user requests —
    in which `addr` is only ever configured with an integrity poll (`cfg.int ≠ 0`), every unsolicited delivery for
    `addr` that is not preceded by a `taskSuccess addr .startupIntegrity` output is EMPTY: its `deliverBegin` is
    directly followed by its `deliverEnd`, no object header reaches the handler -/
theorem startup_unsolicited_gated (txSize addr : Nat) (ins : List MInput)
    (hi : ∀ cfg, MInput.msg (.addAssoc addr cfg) ∈ ins → cfg.int ≠ 0) :
    ∀ pre o post, (run (start txSize) ins).2.flatten = pre ++ o :: post →
      (∃ c i1 i2, o = .deliverBegin (.assoc addr) .unsolicited c i1 i2) →
      (∀ o' ∈ pre, ¬ ∃ fc seq, o' = .taskSuccess addr .startupIntegrity fc seq) →
      ∃ post', post = .deliverEnd (.assoc addr) .unsolicited :: post' :=
  @Dnp3.Proofs.MasterC17Trace.startup_unsolicited_gated txSize addr ins hi

/-- GATING, general form: from ANY state in which the integrity poll of `addr` has not completed (initially, after a
    (re)connect, after a restart indication, after the association was added) and for ANY inputs (that do not
    configure `addr` without an integrity poll), every unsolicited delivery for `addr` in the whole run that is not
    preceded by `taskSuccess addr .startupIntegrity` is empty -/
theorem run_gated (addr : Nat) (s : MState) (ins : List MInput) (hs : Closed addr s) (hi : ∀ i ∈ ins, InputOk addr i) :
    Gated addr (run s ins).2.flatten :=
  @Dnp3.Proofs.MasterC17Trace.run_gated addr s ins hs hi

/-- one step from a state with the gate closed -/
theorem step_gated_inv (addr : Nat) (s : MState) (i : MInput) (hi : InputOk addr i) (h : Closed addr s) : Inv addr (step s i) :=
  @Dnp3.Proofs.MasterC17Trace.step_gated_inv addr s i hi h

/-- RE-ARM: when the connection is lost during a session the gate of every association with an integrity poll is
    closed again — so `run_gated` applies to everything that follows, up to the next integrity success -/
theorem closed_after_eof (addr : Nat) (s : MState) (hcfg : CfgInt addr s)
    (hon : s.mode ≠ .offline ∧ s.mode ≠ .exited) : Closed addr (step s .eof).1 :=
  @Dnp3.Proofs.MasterC17Trace.closed_after_eof addr s hcfg hon


/-- ORDERING 1, trace theorem from the start state: in ANY run of the master from its start state in which `addr` is only
    ever configured with DISABLE_UNSOLICITED (`cfg.dis ≠ 0`) and no user request is itself a start-up integrity poll,
    every `taskStart addr .startupIntegrity` is preceded by the completion of DISABLE_UNSOLICITED for `addr`:
    its `taskSuccess`, or its `taskFail` with an IIN2 rejection (an outstation that does not support the function;
    `AutoTask::on_task_error` treats this as the response) -/
theorem startup_integrity_after_disable (txSize addr : Nat) (ins : List MInput)
    (hcfg : ∀ cfg, MInput.msg (.addAssoc addr cfg) ∈ ins → cfg.dis ≠ 0)
    (huser : ∀ t, (MInput.user addr t ∈ ins ∨ MInput.msg (.queueTask addr t) ∈ ins) → ∀ c, t ≠ .read (.integrity c)) :
    ∀ pre o post, (run (start txSize) ins).2.flatten = pre ++ o :: post →
      (∃ fc seq, o = .taskStart addr .startupIntegrity fc seq) →
      ∃ o' ∈ pre, (∃ fc seq, o' = .taskSuccess addr .disableUnsolicited fc seq) ∨
                  (∃ i1 i2, o' = .taskFail addr .disableUnsolicited (.rejectedIin2 i1 i2)) :=
  @Dnp3.Proofs.MasterC17Trace.Ord.startup_integrity_after_disable txSize addr ins hcfg huser

/-- ORDERING 2, trace theorem from the start state: in ANY run of the master from its start state in which `addr` is only
    ever configured with an integrity poll (`cfg.int ≠ 0`) and no user request is itself an automatic
    ENABLE_UNSOLICITED, every `taskStart addr .enableUnsolicited` is preceded by `taskSuccess addr .startupIntegrity` -/
theorem startup_enable_after_integrity (txSize addr : Nat) (ins : List MInput)
    (hcfg : ∀ cfg, MInput.msg (.addAssoc addr cfg) ∈ ins → cfg.int ≠ 0)
    (huser : ∀ t, (MInput.user addr t ∈ ins ∨ MInput.msg (.queueTask addr t) ∈ ins) → ∀ c, t ≠ .nonRead (.auto .enableUnsol c)) :
    ∀ pre o post, (run (start txSize) ins).2.flatten = pre ++ o :: post →
      (∃ fc seq, o = .taskStart addr .enableUnsolicited fc seq) →
      ∃ o' ∈ pre, ∃ fc seq, o' = .taskSuccess addr .startupIntegrity fc seq :=
  @Dnp3.Proofs.MasterC17Trace.Ord.startup_enable_after_integrity txSize addr ins hcfg huser

/-- ORDERING, general form: from ANY state in which the earlier task of `addr` is pending, in the whole run every start
    of the later task is preceded by a completion of the earlier one -/
theorem run_ordered (w : Which) (addr : Nat) (s : MState) (ins : List MInput) (hq : QOk w addr s) (hs : Pend w addr s)
    (hi : ∀ i ∈ ins, OInputOk w addr i) : Ordered w addr (run s ins).2.flatten :=
  @Dnp3.Proofs.MasterC17Trace.Ord.run_ordered w addr s ins hq hs hi

/-- one step from a state in which the earlier task is pending: the outputs are ordered, and the earlier task is still
    pending afterwards unless its completion was reported -/
theorem step_ordered_inv (w : Which) (addr : Nat) (s : MState) (i : MInput) (hi : OInputOk w addr i) (hq : QOk w addr s)
    (h : Pend w addr s) : OInv w addr (step s i) :=
  @Dnp3.Proofs.MasterC17Trace.Ord.step_ordered_inv w addr s i hi hq h


/-- RE-ARM: when the connection is lost during a session the earlier task is pending again, so `run_ordered` applies to
    everything that follows: after a reconnect the integrity poll again waits for DISABLE_UNSOLICITED, and
    ENABLE_UNSOLICITED again waits for the integrity poll -/
theorem pend_after_eof (w : Which) (addr : Nat) (s : MState) (hcfg : CfgOn w addr s)
    (hon : s.mode ≠ .offline ∧ s.mode ≠ .exited) : QOk w addr (step s .eof).1 ∧ Pend w addr (step s .eof).1 :=
  @Dnp3.Proofs.MasterC17Trace.Ord.pend_after_eof w addr s hcfg hon


/-! concrete instances (the runs `exRun`, `exState` are evaluated in `Dnp3/Proofs/MasterC17Trace.lean`) -/

example : Gated 10 (run (start 2048) exRun).2.flatten := startup_unsolicited_gated 2048 10 exRun exRun_cfg

example : Ordered .disInt 10 (run (start 2048) exRun).2.flatten :=
  startup_integrity_after_disable 2048 10 exRun
    (by intro cfg h; simp [exRun, exUnsolData, exUnsolNull, exResp] at h; subst h; decide)
    (fun t ht => (exRun_noUser t ht).elim)

example : Ordered .intEn 10 (run (start 2048) exRun).2.flatten :=
  startup_enable_after_integrity 2048 10 exRun exRun_cfg (fun t ht => (exRun_noUser t ht).elim)

/-- after a disconnect in `exState` (integrity done, gate open) everything is re-armed -/
example : ¬ Closed 10 exState ∧ Closed 10 (step exState .eof).1 ∧ Pend .disInt 10 (step exState .eof).1 ∧
    Pend .intEn 10 (step exState .eof).1 :=
  ⟨by unfold Closed; decide +kernel, closed_after_eof 10 exState exState_cfg exState_online,
   (pend_after_eof .disInt 10 exState (exState_cfgOn _) exState_online).2,
   (pend_after_eof .intEn 10 exState (exState_cfgOn _) exState_online).2⟩

example (w : Which) : Ordered w 10 (run (step exState .eof).1 [.connect, exUnsolData 6, exResp 3, exUnsolData 7]).2.flatten :=
  run_ordered w 10 _ _ (pend_after_eof w 10 exState (exState_cfgOn w) exState_online).1
    (pend_after_eof w 10 exState (exState_cfgOn w) exState_online).2
    (inputOk_of w 10 _ (by intro cfg h; simp [exUnsolData, exResp] at h)
      (by intro t h; simp [exUnsolData, exResp] at h))

example : Gated 10 (run (step exState .eof).1 [.connect, exUnsolData 6, exResp 3, exUnsolData 7]).2.flatten :=
  run_gated 10 _ _ (closed_after_eof 10 exState exState_cfg exState_online)
    (inputOk_of_cfg 10 _ (by intro cfg h; simp [exUnsolData, exResp] at h))

example : Inv 10 (step (step exState .eof).1 .connect) :=
  step_gated_inv 10 _ .connect (fun _ => Or.inl (by intro h; cases h)) (closed_after_eof 10 exState exState_cfg exState_online)

example (w : Which) : OInv w 10 (step (step exState .eof).1 .connect) :=
  step_ordered_inv w 10 _ .connect trivial (pend_after_eof w 10 exState (exState_cfgOn w) exState_online).1
    (pend_after_eof w 10 exState (exState_cfgOn w) exState_online).2

-- ===== END C17 trace theorems =====

end Dnp3.Props.C17
