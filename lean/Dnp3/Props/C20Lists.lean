import Lean
import Dnp3.Model.Ffi
import Dnp3.Model.FfiHandler
/-!
# C20 — the reviewed exception lists (one comment per entry)

Kept in their own module so that the failing-input search (`tools/diag_c20.lean`) can load them even
when a theorem of `Dnp3.Props.C20` no longer checks.  The namespace is the property's.
-/
namespace Dnp3.Props.C20
open Dnp3.Gen.Ffi Dnp3.Ffi

open Lean in
/-- `c!"Abc"` is the list of character codes `[65, 98, 99]` (notation only: the reviewed lists below are written as
    text, the kernel sees numbers — `String` operations are far too slow in the kernel) -/
macro "c!" s:str : term => do
  let cs := s.getString.toList.toArray.map (fun c => Syntax.mkNumLit (toString c.toNat))
  `(([$cs,*] : List Nat))

example : c!"Ab_9" = [65, 98, 95, 57] := rfl
example : String.ofList ((c!"TaskError").map Char.ofNat) = "TaskError" := by decide

/-- reviewed variant renames: (source type, source variant, target variant) -/
def renames : List Rename := [
  -- time qualities: the ffi enum names carry a `Time` suffix; `Option<Time>::None` is the invalid quality
  ⟨c!"Time", c!"Synchronized", c!"SynchronizedTime"⟩,
  ⟨c!"Time", c!"Unsynchronized", c!"UnsynchronizedTime"⟩,
  ⟨c!"Option", c!"None", c!"InvalidTime"⟩,
  ⟨c!"TimeQuality", c!"SynchronizedTime", c!"Synchronized"⟩,
  ⟨c!"TimeQuality", c!"UnsynchronizedTime", c!"Unsynchronized"⟩,
  ⟨c!"TimeQuality", c!"InvalidTime", c!"None"⟩,
  -- restart delay: c!"not supported" is the absent delay on the native side (both directions)
  ⟨c!"RestartDelayType", c!"NotSupported", c!"None"⟩,
  ⟨c!"Option", c!"None", c!"NotSupported"⟩,
  -- runtime errors are folded into the flat `ParamError` with a `Runtime` prefix
  ⟨c!"RuntimeError", c!"CannotBlockWithinAsync", c!"RuntimeCannotBlockWithinAsync"⟩,
  ⟨c!"RuntimeError", c!"FailedToCreateRuntime", c!"RuntimeCreationFailure"⟩,
  -- task errors: the ffi error enums have three coarse buckets (see `manyToOne`) and older names
  ⟨c!"TaskError", c!"Link", c!"NoConnection"⟩,
  ⟨c!"TaskError", c!"Transport", c!"NoConnection"⟩,
  ⟨c!"TaskError", c!"Disabled", c!"NoConnection"⟩,
  ⟨c!"TaskError", c!"MalformedResponse", c!"BadResponse"⟩,
  ⟨c!"TaskError", c!"UnexpectedResponseHeaders", c!"BadResponse"⟩,
  ⟨c!"TaskError", c!"NonFinWithoutCon", c!"BadResponse"⟩,
  ⟨c!"TaskError", c!"NeverReceivedFir", c!"BadResponse"⟩,
  ⟨c!"TaskError", c!"UnexpectedFir", c!"BadResponse"⟩,
  ⟨c!"TaskError", c!"MultiFragmentResponse", c!"BadResponse"⟩,
  ⟨c!"TaskError", c!"NoSuchAssociation", c!"AssociationRemoved"⟩,
  -- accepted only where the target enum has no `RejectedByIin2` of its own: see `renames_only_without_namesake`
  ⟨c!"TaskError", c!"RejectedByIin2", c!"IinError"⟩,
  -- command response mismatches share one ffi value (see `manyToOne`)
  ⟨c!"CommandResponseError", c!"HeaderCountMismatch", c!"HeaderMismatch"⟩,
  ⟨c!"CommandResponseError", c!"HeaderTypeMismatch", c!"HeaderMismatch"⟩,
  ⟨c!"CommandResponseError", c!"ObjectCountMismatch", c!"HeaderMismatch"⟩,
  ⟨c!"CommandResponseError", c!"ObjectValueMismatch", c!"HeaderMismatch"⟩,
  -- errors folded into the flat `ParamError`, qualified by their origin
  ⟨c!"AssociationError", c!"Shutdown", c!"MasterAlreadyShutdown"⟩,
  ⟨c!"AssociationError", c!"DuplicateAddress", c!"AssociationDuplicateAddress"⟩,
  ⟨c!"PollError", c!"Shutdown", c!"MasterAlreadyShutdown"⟩,
  ⟨c!"PollError", c!"NoSuchAssociation", c!"AssociationDoesNotExist"⟩,
  ⟨c!"TlsError", c!"Other", c!"OtherTlsError"⟩,
  -- file type: the ffi enum calls a plain file `Simple`
  ⟨c!"FileType", c!"File", c!"Simple"⟩,
  -- TLS certificate mode selects a constructor function: authority based = full PKI
  ⟨c!"CertificateMode", c!"AuthorityBased", c!"full_pki"⟩,
  -- control codes: the ffi enums have no `Unknown(u8)`; an undefined raw value is presented as NUL (LOSSY, see report)
  ⟨c!"TripCloseCode", c!"Unknown", c!"Nul"⟩,
  ⟨c!"OpType", c!"Unknown", c!"Nul"⟩,
  -- outstation features: bool on the ffi side, two-valued enum natively
  ⟨c!"bool", c!"true", c!"Enabled"⟩,
  ⟨c!"bool", c!"false", c!"Disabled"⟩
]

/-- reviewed type pairings (source type ↦ target type, last path segments) -/
def typeRenames : List TypeRename := [
  ⟨c!"AnalogCommandValue", c!"AnalogCommandType"⟩,   -- value-carrying enum ↦ its discriminant
  ⟨c!"Time", c!"TimeQuality"⟩, ⟨c!"Option", c!"TimeQuality"⟩, ⟨c!"TimeQuality", c!"Time"⟩, ⟨c!"TimeQuality", c!"Option"⟩,
  ⟨c!"RuntimeError", c!"ParamError"⟩, ⟨c!"AssociationError", c!"ParamError"⟩, ⟨c!"PollError", c!"ParamError"⟩, ⟨c!"TlsError", c!"ParamError"⟩,
  -- `TaskError` is embedded in every per-operation error enum of the bindings
  ⟨c!"TaskError", c!"CommandError"⟩, ⟨c!"TaskError", c!"TimeSyncError"⟩, ⟨c!"TaskError", c!"RestartError"⟩, ⟨c!"TaskError", c!"ReadError"⟩,
  ⟨c!"TaskError", c!"LinkStatusError"⟩, ⟨c!"TaskError", c!"EmptyResponseError"⟩, ⟨c!"TaskError", c!"FileError"⟩,
  ⟨c!"CommandResponseError", c!"CommandError"⟩, ⟨c!"WriteError", c!"EmptyResponseError"⟩,
  ⟨c!"CertificateMode", c!"TlsClientConfig"⟩, ⟨c!"CertificateMode", c!"TlsServerConfig"⟩,
  ⟨c!"AutoTimeSync", c!"Option"⟩, ⟨c!"AutoTimeSync", c!"TimeSyncProcedure"⟩, ⟨c!"TimeSyncMode", c!"TimeSyncProcedure"⟩,
  ⟨c!"RestartDelayType", c!"Option"⟩, ⟨c!"RestartDelayType", c!"RestartDelay"⟩, ⟨c!"RestartDelay", c!"RestartDelayType"⟩, ⟨c!"Option", c!"RestartDelayType"⟩,
  ⟨c!"WriteTimeResult", c!"Result"⟩, ⟨c!"WriteTimeResult", c!"RequestError"⟩, ⟨c!"FreezeResult", c!"Result"⟩, ⟨c!"FreezeResult", c!"RequestError"⟩,
  ⟨c!"UpdateInfo", c!"UpdateResult"⟩, ⟨c!"EventClass", c!"Option"⟩, ⟨c!"bool", c!"Feature"⟩
]

/-- deliberate many-to-one collapses: (source type, target variant) -/
def manyToOne : List ManyToOne := [
  ⟨c!"TaskError", c!"NoConnection"⟩,            -- Link / Transport / Disabled / NoConnection: c!"no usable connection"
  ⟨c!"TaskError", c!"BadResponse"⟩,             -- six kinds of malformed / unexpected response
  ⟨c!"CommandResponseError", c!"HeaderMismatch"⟩, -- four kinds of echo mismatch
  ⟨c!"TripCloseCode", c!"Nul"⟩,                 -- Unknown(u8) is presented as Nul (LOSSY, see report)
  ⟨c!"OpType", c!"Nul"⟩                         -- Unknown(u8) is presented as Nul (LOSSY, see report)
]

/-- reviewed field renames: (target field, source accessor) -/
def fieldRenames : List FieldRename := [
  ⟨c!"s_var", c!"static_variation"⟩, ⟨c!"e_var", c!"event_variation"⟩,   -- point configs: native abbreviations
  ⟨c!"max_double_binary", c!"max_double_bit_binary"⟩, ⟨c!"max_double_bit_binary", c!"max_double_binary"⟩,
  ⟨c!"index", c!"idx"⟩,                    -- measurement constructors `ffi::X::new(idx, value)`
  ⟨c!"created", c!"id"⟩,                   -- `UpdateInfo::Created(id)`
  ⟨c!"func", c!"function"⟩,                -- response header
  ⟨c!"control_field", c!"control"⟩,        -- request header
  ⟨c!"value", c!"raw_value"⟩,              -- ffi::Timestamp.value from `Timestamp::raw_value()`
  ⟨c!"value", c!"time"⟩, ⟨c!"quality", c!"time"⟩,  -- ffi::Timestamp from `Option<Time>`: both fields are functions of `time` (arms table)
  ⟨c!"value", c!"it"⟩,                     -- ffi::OctetString.value is the byte iterator `it`
  ⟨c!"file_name", c!"current_name"⟩, ⟨c!"file_name", c!"name"⟩,  -- C string copies of `FileInfo::name`
  ⟨c!"address", c!"raw_value"⟩,            -- AssociationId.address from `EndpointAddress::raw_value()`
  ⟨c!"association_id", c!"address"⟩,       -- PollId.association_id from the association's address
  ⟨c!"master_address", c!"address"⟩        -- MasterChannelConfig.master_address from the validated `address`
]

/-- reviewed constant fields: (struct type, field) that an arm sets to a constant because the source variant has no such datum -/
def constFields : List (Name × Name) := [
  (c!"UpdateInfoFields", c!"created"), (c!"UpdateInfoFields", c!"discarded"),  -- NoPoint / NoEvent / Created carry fewer ids
  (c!"RestartDelayFields", c!"value"),                                       -- NotSupported has no delay
  (c!"Timestamp", c!"quality")                                              -- g50/g51 absolute time is synchronized by definition
]

/-! ## master-side measurement path (`impl ReadHandler for ffi::ReadHandler`, Gen/FfiHandler.lean): reviewed constants -/

/-- how a method of the impl is written: `handle_x` ↦ `XIterator::new(iter)`, `info.into()`, `(self, info, &mut iterator)` -/
def methodCfg : Dnp3.FfiHandler.MethodCfg where
  pHandle := c!"handle_"
  sIterator := c!"Iterator"
  nIter := c!"iter"
  nInfoInto := c!"info.into()"
  iterArgs := [c!"self", c!"info", c!"&mut iterator"]
  fragArgs := [c!"self", c!"read_type.into()", c!"header.into()"]
  valueArgs := [c!"self", c!"info.into()"]

/-- the adapter that is not generated by `implement_iterator!` -/
def octetIt : Dnp3.Ffi.Name := c!"OctetStringIterator"

/-- the body of `macro_rules! implement_iterator` -/
def macroCfg : Dnp3.FfiHandler.MacroCfg where
  libParam := c!"$lib_type"
  ffiParam := c!"$ffi_type"
  u16 := c!"u16"
  slot := c!"self.next"
  ctor := c!"<$ffi_type>::new"
  newInit := [c!"inner", c!"next:None"]
  idx := c!"idx"
  value := c!"value"

/-- what every exported `*_iterator_next` does with a non-null iterator: advance, then yield the slot (NULL when empty) -/
def nextSteps : List Dnp3.Ffi.Name := [c!"it.next()", c!"it.next.as_ref()"]

/-- the arms of `handle_device_attribute` -/
def attrCfg : Dnp3.FfiHandler.AttrCfg where
  pHandle := c!"handle_"
  sAttr := c!"Attr"
  -- `FfiAttrValue::DNP3Time` is delivered through `handle_time_attr` with `ffi::TimeAttr`
  renames := [(c!"DNP3Time", c!"Time")]
  nSelf := c!"self"
  nInfo := c!"info"
  nSet := c!"set.value()"
  nVar := c!"var"
  nE := c!"e"
  ePre := c!"e.map(|x|x.into()).unwrap_or(ffi::"
  ePost := c!"::Unknown)"
  eInto := c!"e.into()"
  pFfi := c!"ffi::"
  sUnknown := c!"::Unknown"

end Dnp3.Props.C20
