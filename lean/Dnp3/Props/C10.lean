import Dnp3.Proofs.MeasurementSpec
/-!
# C10 — Measurement values survive the trip from outstation database to master handler

Theorems about `Dnp3.Model.Measurement` (tied to the code by the regenerated tables of
`Dnp3.Gen.Conv` -- the 138 `ToVariation` / `From` impls of conversion.rs AND the branch lists of
`AnalogConversions::{to_i16,to_i32,to_f32}` -- and by the `convert` correspondence engine).  All
statements are for ALL values.

Former defect D11 (DESIGN.md §7; repaired in the library): an analog NaN written through an integer
variation arrived as 0 WITHOUT the OVER_RANGE flag.  `to_i16` / `to_i32` now test `is_nan()` first;
the generated rows carry that branch, and `analog_saturates_all_values`, `analog_nan_flagged` and
`roundtrip_representable` are stated for every value, NaN included.  A source without the NaN branch
regenerates rows for which `Dnp3.Meas.convRow_int` (and with it this module) no longer compiles.
-/
namespace Dnp3.Props.C10
open Dnp3.Meas Dnp3.Gen.Conv
set_option linter.unusedSimpArgs false
set_option linter.unusedVariables false

/-! ## saturation and the OVER_RANGE flag -/

/-- `flags ||| OVER_RANGE` sets bit 5 and leaves every other bit as it was -/
theorem over_range_other_bits_untouched (flags i : Nat) :
    (setOverRange flags).testBit i = (flags.testBit i || i == 5) := by
  unfold setOverRange OVER_RANGE overRangeMask
  rw [Nat.testBit_or, show (32 : Nat) = 2 ^ 5 from rfl, Nat.testBit_two_pow]
  by_cases h : i = 5
  · subst h; simp
  · have h' : ¬ (5 = i) := fun hh => h hh.symm
    simp [h, h']

/-- `analog_saturates` for finite values, both integer widths (`N = -MIN`, `P = MAX`):
the delivered integer is the truncation toward zero clamped into `[MIN, MAX]`; OVER_RANGE is
added exactly when the exact value lies outside `[MIN, MAX]`, otherwise the flags are returned
unchanged; the result is inside the range (never wrapped) and never has the opposite sign. -/
theorem analog_saturates (N P : Nat) (hNP : P ≤ N) (neg : Bool) (m : Nat) (e : Int) (flags : Nat) :
    let r := toInt N P (.fin neg m e) flags
    r.2 = max (-(N : Int)) (min (P : Int) (truncInt neg m e)) ∧
    r.1 = (if (neg && magGt m e N) || (!neg && magGt m e P) then setOverRange flags else flags) ∧
    (-(N : Int) ≤ r.2 ∧ r.2 ≤ (P : Int)) ∧
    (r.2 < 0 → neg = true) ∧ (0 < r.2 → neg = false) := by
  intro r
  have h := toInt_fin N P hNP neg m e flags
  have h1 : r.1 = _ := congrArg Prod.fst h
  have h2 : r.2 = _ := congrArg Prod.snd h
  simp only [outOfRange, clampTrunc] at h1 h2
  refine ⟨h2, h1, ?_, ?_, ?_⟩
  · rw [h2]; omega
  · rw [h2]; intro hlt; cases neg
    · exfalso; simp only [truncInt, Bool.false_eq_true, if_false] at hlt; omega
    · rfl
  · rw [h2]; intro hgt; cases neg
    · rfl
    · exfalso; simp only [truncInt, if_true] at hgt; omega

example : toI16 (AVal.ofBits 0x40E0001FFFFFFFFF) 1 = (33, 32767) := by decide   -- 32768.99.. saturates
example : toI16 (AVal.ofBits 0xC0E0000000000000) 1 = (1, -32768) := by decide   -- -32768.0 is in range
example : toI16 (AVal.ofBits 0xBFE0000000000000) 1 = (1, 0) := by decide        -- -0.5 truncates to 0
example : toI16 (AVal.ofBits 0x7FF8000000000000) 1 = (33, 0) := by decide       -- NaN: 0, flagged

/-- the tie of the analog conversion methods: the rows regenerated from `trait AnalogConversions`
on this run are one per method, with the target types of the variations they feed; the integer
methods test `is_nan()`, `< MIN`, `> MAX` in this order, each returning OVER_RANGE-flagged flags
with 0 / MIN / MAX, and end in `(flags, value as T)`; the float method has the two bound tests only;
`Self::OVER_RANGE` is bit 5 (0x20), the standard's OVER_RANGE bit of an analog flag octet. -/
theorem analog_conversions_as_generated :
    analogConvs = [intRow .toI16 .i16, intRow .toI32 .i32, f32Row] ∧ overRangeMask = 0x20 := by
  decide

/-- the generated rows compute the closed form `toInt` (NaN, then `< MIN`, then `> MAX`, then the
cast), for both integer widths -/
theorem analog_conversions_closed_form (v : AVal) (flags : Nat) :
    toI16 v flags = toInt 32768 32767 v flags ∧ toI32 v flags = toInt 2147483648 2147483647 v flags :=
  ⟨toI16_eq_toInt v flags, toI32_eq_toInt v flags⟩

/-- `analog_saturates` for EVERY value, NaN included (FULL STATEMENT; `outOfRange` counts NaN and
±infinity as not representable): what `to_i16` / `to_i32` deliver is the truncation toward zero
clamped into `[MIN, MAX]` (0 for NaN), and OVER_RANGE is added exactly when the value is not
representable in `[MIN, MAX]`; otherwise the flags are returned unchanged. -/
theorem analog_saturates_all_values (v : AVal) (flags : Nat) :
    toI16 v flags =
      (if outOfRange 32768 32767 v then setOverRange flags else flags, clampTrunc 32768 32767 v) ∧
    toI32 v flags =
      (if outOfRange 2147483648 2147483647 v then setOverRange flags else flags,
       clampTrunc 2147483648 2147483647 v) :=
  ⟨(toI16_eq_toInt v flags).trans (toInt_spec 32768 32767 (by decide) v flags),
   (toI32_eq_toInt v flags).trans (toInt_spec 2147483648 2147483647 (by decide) v flags)⟩

/-- consequence: whatever the value, a result other than the plain in-range truncation is flagged,
and the delivered integer is always inside `[MIN, MAX]` (never wrapped) -/
theorem analog_never_silently_changed (v : AVal) (flags : Nat) :
    (-32768 ≤ (toI16 v flags).2 ∧ (toI16 v flags).2 ≤ 32767) ∧
    (-2147483648 ≤ (toI32 v flags).2 ∧ (toI32 v flags).2 ≤ 2147483647) ∧
    (outOfRange 32768 32767 v = true → (toI16 v flags).1 = setOverRange flags) ∧
    (outOfRange 2147483648 2147483647 v = true → (toI32 v flags).1 = setOverRange flags) ∧
    (outOfRange 32768 32767 v = false → (toI16 v flags).1 = flags) ∧
    (outOfRange 2147483648 2147483647 v = false → (toI32 v flags).1 = flags) := by
  obtain ⟨h16, h32⟩ := analog_saturates_all_values v flags
  rw [h16, h32]
  refine ⟨?_, ?_, ?_, ?_, ?_, ?_⟩
  · cases v with
    | nan => simp [clampTrunc]
    | inf neg => cases neg <;> simp [clampTrunc]
    | fin neg m e => simp only [clampTrunc]; omega
  · cases v with
    | nan => simp [clampTrunc]
    | inf neg => cases neg <;> simp [clampTrunc]
    | fin neg m e => simp only [clampTrunc]; omega
  · intro h; simp [h]
  · intro h; simp [h]
  · intro h; simp [h]
  · intro h; simp [h]

/-- former D11, now the repaired behaviour: NaN through an integer conversion gives 0 WITH
OVER_RANGE, whatever the recorded flags.  (`0x7FF8000000000000` is the canonical quiet NaN;
ONLINE = 1, ONLINE|OVER_RANGE = 33.) -/
theorem analog_nan_flagged :
    AVal.ofBits 0x7FF8000000000000 = .nan ∧
    toI16 .nan 1 = (33, 0) ∧ toI32 .nan 1 = (33, 0) ∧
    (∀ flags, toI16 .nan flags = (setOverRange flags, 0) ∧ toI32 .nan flags = (setOverRange flags, 0)) := by
  refine ⟨by decide, by decide, by decide, fun flags => ?_⟩
  have h := analog_saturates_all_values .nan flags
  simpa [outOfRange, clampTrunc] using h

/-- every NaN bit pattern (any sign, any payload, quiet or signalling) decodes to `.nan` -/
theorem nan_patterns_decode (b : Nat) (hex : b / 2 ^ 52 % 2048 = 2047) (hm : b % 2 ^ 52 ≠ 0) :
    AVal.ofBits b = .nan := by
  simp [AVal.ofBits, hex, hm]

example : 0xFFF0000000000001 / 2 ^ 52 % 2048 = 2047 ∧ 0xFFF0000000000001 % 2 ^ 52 ≠ 0 := by decide

/-- the same end to end through the generated rows of g30v1 (ONLINE NaN in, ONLINE|OVER_RANGE 0 out) -/
theorem analog_nan_flagged_g30v1 :
    (do let e ← lookupTo .ai 30 1
        let f ← lookupFrom .ai 30 1
        pure (fromVariation f (toVariation e ⟨0x7FF8000000000000, 1, none⟩ 0x7FC00000)))
      = some ⟨0, 33, none⟩ := by decide

/-- representable values arrive unchanged: a finite value that IS an integer `±k` of the range
(`isInteger m e k`: its exact value `m·2^e` equals `k`) is delivered as exactly that integer with
the flags untouched, by both integer conversions -/
theorem analog_representable_unchanged (neg : Bool) (m : Nat) (e : Int) (k : Nat) (flags : Nat)
    (hk : isInteger m e k) :
    ((if neg then k ≤ 32768 else k ≤ 32767) →
      toI16 (.fin neg m e) flags = (flags, if neg then -((k : Nat) : Int) else ((k : Nat) : Int))) ∧
    ((if neg then k ≤ 2147483648 else k ≤ 2147483647) →
      toI32 (.fin neg m e) flags = (flags, if neg then -((k : Nat) : Int) else ((k : Nat) : Int))) :=
  ⟨fun hin => (toI16_eq_toInt _ flags).trans (toInt_integer 32768 32767 neg m e k flags hk hin),
   fun hin => (toI32_eq_toInt _ flags).trans (toInt_integer 2147483648 2147483647 neg m e k flags hk hin)⟩

-- -32768.0 = -(2^52 · 2^-37): m = 2^52, e = -37, k = 32768
example : AVal.ofBits 0xC0E0000000000000 = .fin true (2 ^ 52) (-37) ∧ isInteger (2 ^ 52) (-37) 32768 := by
  refine ⟨by decide, ?_⟩
  unfold isInteger
  decide

/-- the float conversion: saturation to ±`f32::MAX` with OVER_RANGE exactly when the magnitude
exceeds `f32::MAX`; otherwise the flags are unchanged and the value is the supplied rounding -/
theorem analog_f32_saturates (neg : Bool) (m : Nat) (e : Int) (flags r32 : Nat) :
    toF32 (.fin neg m e) flags r32 =
      if magGt m e F32_MAX then
        (setOverRange flags, if neg then F32_MIN_BITS else F32_MAX_BITS)
      else (flags, r32) := toF32_fin neg m e flags r32

/-! ## counters -/

/-- every row of the generated table whose value is a 16-bit counter field takes `self.value as u16`,
i.e. the low 16 bits, and passes the flags (if the variation has any) and time through untouched -/
theorem counter_low16 :
    ∀ e ∈ toTable, (e.ty = .ct ∨ e.ty = .fc) → e.vty = .u16 →
      ∀ (m : Meas) (r32 : Nat),
        (toVariation e m r32).value = .u16 (m.val % 65536) ∧
        ((toVariation e m r32).flags = some m.flags ∨ (toVariation e m r32).flags = none) := by
  have shape : ∀ e ∈ toTable, (e.ty = .ct ∨ e.ty = .fc) → e.vty = .u16 →
      e.value = .selfValueAsU16 ∧ (e.flags = .selfFlags ∨ e.flags = .absent) := by decide
  intro e he hty hv m r32
  obtain ⟨h1, h2⟩ := shape e he hty hv
  refine ⟨by simp [toVariation, h1], ?_⟩
  rcases h2 with h2 | h2 <;> simp [toVariation, h2]

/-- and the master widens it back without change: what arrives is `value % 65536` -/
theorem counter_low16_delivered :
    ∀ e ∈ toTable, ∀ f ∈ fromTable, f.ty = e.ty → f.group = e.group → f.var = e.var →
      (e.ty = .ct ∨ e.ty = .fc) → e.vty = .u16 →
      ∀ (m : Meas) (r32 : Nat), (fromVariation f (toVariation e m r32)).val = m.val % 65536 := by
  have shape : ∀ e ∈ toTable, ∀ f ∈ fromTable, f.ty = e.ty → f.group = e.group → f.var = e.var →
      (e.ty = .ct ∨ e.ty = .fc) → e.vty = .u16 →
      e.value = .selfValueAsU16 ∧ f.value = .vValueAsU32 := by decide +kernel
  intro e he f hf h1 h2 h3 hty hv m r32
  obtain ⟨s1, s2⟩ := shape e he f hf h1 h2 h3 hty hv
  simp [fromVariation, toVariation, s1, s2]

example : (⟨.ct, 22, 6, none, .selfFlags, .selfValueAsU16, .selfTimeInto, .u16, .ts48⟩ : ToVar) ∈ toTable := by decide

/-! ## packed formats -/

/-- g1v1 / g3v1 / g10v1 (variation 1 of the binary types) is written only if the flags, value
bit(s) aside, are exactly ONLINE; otherwise variation 2 is used; no other variation is ever
changed by `promote` -/
theorem packed_only_if_online (ty : MTy) (svar : Nat) (m : Meas) :
    (ty = .bi ∨ ty = .bo ∨ ty = .db →
      (promote ty svar m = 1 ↔ svar = 1 ∧ flagsWithoutState ty m.flags = 1) ∧
      (svar = 1 → flagsWithoutState ty m.flags ≠ 1 → promote ty svar m = 2) ∧
      (svar ≠ 1 → promote ty svar m = svar)) ∧
    (¬ (ty = .bi ∨ ty = .bo ∨ ty = .db) → promote ty svar m = svar) := by
  constructor
  · intro hty
    rcases hty with h | h | h <;> subst h
    · by_cases hs : svar = 1 <;> by_cases hf : flagsWithoutState .bi m.flags = 1 <;> simp [promote, hs, hf]
    · by_cases hs : svar = 1 <;> by_cases hf : flagsWithoutState .bo m.flags = 1 <;> simp [promote, hs, hf]
    · by_cases hs : svar = 1 <;> by_cases hf : flagsWithoutState .db m.flags = 1 <;> simp [promote, hs, hf]
  · intro hty
    cases ty <;> simp_all [promote]

/-- the flagged variation used instead carries all eight bits of the flag octet: the six / seven
quality bits unchanged and the value in the state bit(s); the master reads the value back from there -/
theorem flagged_variation_carries_octet (m : Meas) (r32 : Nat) (hf : m.flags < 256) :
    (∀ e ∈ toTable, ∀ f ∈ fromTable, e.ty = .bi ∨ e.ty = .bo → f.ty = e.ty → f.group = e.group → f.var = e.var →
      let d := fromVariation f (toVariation e m r32)
      d.flags % 128 = m.flags % 128 ∧ d.flags / 128 = m.val % 2 ∧ d.val = m.val % 2) ∧
    (∀ e ∈ toTable, ∀ f ∈ fromTable, e.ty = .db → f.ty = e.ty → f.group = e.group → f.var = e.var →
      let d := fromVariation f (toVariation e m r32)
      d.flags % 64 = m.flags % 64 ∧ d.flags / 64 = m.val % 4 ∧ d.val = m.val % 4) := by
  have shape1 : ∀ e ∈ toTable, ∀ f ∈ fromTable, e.ty = .bi ∨ e.ty = .bo → f.ty = e.ty → f.group = e.group → f.var = e.var →
      e.flags = .getWireFlags ∧ f.value = .flagsState ∧ (f.flags = .letFlags ∨ f.flags = .newVFlags) := by decide +kernel
  have shape2 : ∀ e ∈ toTable, ∀ f ∈ fromTable, e.ty = .db → f.ty = e.ty → f.group = e.group → f.var = e.var →
      e.flags = .getWireFlags ∧ f.value = .flagsDoubleBit ∧ (f.flags = .letFlags ∨ f.flags = .newVFlags) := by decide +kernel
  constructor
  · intro e he f hff hty h1 h2 h3
    obtain ⟨s1, s2, s3⟩ := shape1 e he f hff hty h1 h2 h3
    have hw : wireFlags e.ty m = m.flags % 128 + (if m.val % 2 == 1 then 128 else 0) := by
      rcases hty with h | h <;> simp [wireFlags, h]
    rcases s3 with s3 | s3 <;>
      (simp only [fromVariation, toVariation, s1, s2, s3, Option.getD_some, hw]
       by_cases hv : m.val % 2 = 1 <;> simp [hv] <;> omega)
  · intro e he f hff hty h1 h2 h3
    obtain ⟨s1, s2, s3⟩ := shape2 e he f hff hty h1 h2 h3
    have hw : wireFlags e.ty m = m.flags % 64 + 64 * (m.val % 4) := by simp [wireFlags, hty]
    rcases s3 with s3 | s3 <;>
      (simp only [fromVariation, toVariation, s1, s2, s3, Option.getD_some, hw]; omega)

/-! ## common time of occurrence -/

/-- a new common-time header is started before an event exactly when the header in progress
cannot take it: the count is exhausted, the quality differs, the time is earlier than the
header's common time, or the gap exceeds 65535 ms -/
theorem cto_header_switch_iff (c : Time) (count : Nat) (e : TEv) (es : List (Bool × TEv)) :
    (writeCtoEvents (some (c, count)) ((false, e) :: es)).head? = some (.cto e.time) ↔
      ¬ (count < 65535 ∧ c.sync = e.time.sync ∧ c.ms ≤ e.time.ms ∧ e.time.ms - c.ms ≤ 65535) := by
  simp only [writeCtoEvents, Bool.false_eq_true, if_false]
  by_cases h : (decide (count < 65535) && ctoFits c e.time) = true
  · simp only [h, if_true, List.head?_cons]
    simp only [ctoFits, Bool.and_eq_true, decide_eq_true_eq, beq_iff_eq] at h
    simp [h.1, h.2.1.1, h.2.1.2, h.2.2]
  · simp only [h, if_false, Bool.false_eq_true, List.head?_cons, true_iff]
    intro hh
    apply h
    simp [ctoFits, hh.1, hh.2.1, hh.2.2.1, hh.2.2.2]

/-- `cto_reconstructs`: for EVERY list of timed events in ANY order (decreasing times, gaps
below / at / above 65535 ms, mixed synchronised / unsynchronised, forced header breaks anywhere),
the master-side fold over what the event writer produced returns, for every event, exactly its
index, flag octet, recorded time and quality, in order — whatever common time the master held
before. -/
theorem cto_reconstructs (evs : List (Bool × TEv)) (h : ∀ p ∈ evs, p.2.time.ms ≤ TS_MAX)
    (c0 : Option Time) :
    masterFold c0 (writeCtoEvents none evs) =
      evs.map fun p => (p.2.idx, p.2.flags, some p.2.time) :=
  masterFold_write evs h none c0 (by intro t n hh; cases hh)

example : ∀ p ∈ [(false, (⟨7, 1, ⟨true, 70000⟩⟩ : TEv)), (false, ⟨8, 129, ⟨true, 4465⟩⟩), (false, ⟨7, 1, ⟨false, 4466⟩⟩)],
    p.2.time.ms ≤ TS_MAX := by decide

/-- relative times really are 16-bit: every `.ev` item the writer emits has `rel ≤ 65535` -/
theorem cto_relative_fits_u16 (evs : List (Bool × TEv)) :
    ∀ st, ∀ it ∈ writeCtoEvents st evs, ∀ i f d, it = .ev i f d → d ≤ 65535 := by
  induction evs with
  | nil => intro st it h; simp [writeCtoEvents] at h
  | cons p es ih =>
    intro st it hit i f d hd
    obtain ⟨brk, e⟩ := p
    simp only [writeCtoEvents] at hit
    cases hb : (if brk = true then none else st) with
    | none =>
      simp only [hb, List.mem_cons] at hit
      rcases hit with h | h | h
      · subst h; cases hd
      · subst h; cases hd; omega
      · exact ih _ it h i f d hd
    | some cn =>
      obtain ⟨c, count⟩ := cn
      simp only [hb] at hit
      by_cases hf : (decide (count < 65535) && ctoFits c e.time) = true
      · simp only [hf, if_true, List.mem_cons] at hit
        rcases hit with h | h
        · subst h; cases hd
          simp only [ctoFits, Bool.and_eq_true, decide_eq_true_eq] at hf
          exact hf.2.2
        · exact ih _ it h i f d hd
      · simp only [hf, if_false, Bool.false_eq_true, List.mem_cons] at hit
        rcases hit with h | h | h
        · subst h; cases hd
        · subst h; cases hd; omega
        · exact ih _ it h i f d hd

/-! ## per-variation carry over the generated conversions table -/

/-- the generated tables are exactly the realisation of the specification rows: every generated
row has its specification row and vice versa -/
theorem tables_realise_spec :
    (∀ e ∈ toTable, ∃ s ∈ specTable, expectedTo s = e) ∧
    (∀ f ∈ fromTable, ∃ s ∈ specTable, expectedFrom s = normFrom f) ∧
    (∀ s ∈ specTable, expectedTo s ∈ toTable ∧ ∃ f ∈ fromTable, expectedFrom s = normFrom f) ∧
    toTable.length = 69 ∧ fromTable.length = 69 ∧ implCount = 138 := by
  refine ⟨by decide +kernel, by decide +kernel, by decide +kernel, by decide, by decide, by decide⟩

/-- `roundtrip_representable` (FULL STATEMENT, no exception: for NaN into an integer variation
`carry` demands 0 and OVER_RANGE): for EVERY (type, variation) pair of the generated conversions
table and EVERY measurement, converting to the variation on the outstation and back on the master
yields exactly what the variation can carry.  (Field level; the octet encoding of fields is C09's
subject.  Index preservation is part of the correspondence engine.) -/
theorem roundtrip_representable :
    ∀ e ∈ toTable, ∃ s ∈ specTable, ∃ f ∈ fromTable,
      s.ty = e.ty ∧ s.group = e.group ∧ s.var = e.var ∧ f.ty = e.ty ∧ f.group = e.group ∧ f.var = e.var ∧
      ∀ (m : Meas) (r32 : Nat),
        fromVariation f (toVariation e m r32) = carry s m r32 := by
  have allOk : ∀ s ∈ specTable, specOk s = true := by decide
  intro e he
  obtain ⟨s, hs, hse⟩ := tables_realise_spec.1 e he
  obtain ⟨_, f, hf, hsf⟩ := tables_realise_spec.2.2.1 s hs
  refine ⟨s, hs, f, hf, ?_, ?_, ?_, ?_, ?_, ?_, ?_⟩
  · rw [← hse]; rfl
  · rw [← hse]; rfl
  · rw [← hse]; rfl
  · have := congrArg FromVar.ty hsf; rw [← hse]; simpa [expectedFrom, normFrom, expectedTo] using this.symm
  · have := congrArg FromVar.group hsf; rw [← hse]; simpa [expectedFrom, normFrom, expectedTo] using this.symm
  · have := congrArg FromVar.var hsf; rw [← hse]; simpa [expectedFrom, normFrom, expectedTo] using this.symm
  · intro m r32
    rw [← hse, ← fromVariation_norm f, ← hsf]
    exact roundtrip_expected s (allOk s hs) m r32

example : (⟨.ai, 30, 2, .i16, true, false⟩ : VSpec) ∈ specTable := by decide

/-- consequence, spelled out for one row: g30v2 of an ONLINE 40000.0 arrives as 32767.0 with
ONLINE|OVER_RANGE -/
example : carry ⟨.ai, 30, 2, .i16, true, false⟩ ⟨0x40E3880000000000, 1, none⟩ 0 = ⟨0x40DFFFC000000000, 33, none⟩ := by
  decide

/-- and for the former D11 input: g30v2 of an ONLINE NaN must arrive as 0.0 with ONLINE|OVER_RANGE -/
example : carry ⟨.ai, 30, 2, .i16, true, false⟩ ⟨0x7FF8000000000000, 1, none⟩ 0x7FC00000 = ⟨0, 33, none⟩ := by
  decide

end Dnp3.Props.C10
