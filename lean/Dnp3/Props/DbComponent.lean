import Dnp3.Proofs.Database
/-!
# Outstation database — component-level theorems behind C03, C11 and C13

Model: `Dnp3.Model.Database` (event buffer + static database + response writing of
`outstation/database/**` for all eight point types), tied to the code by the generated per-type tables
(`Dnp3.Gen.DbT`, well-formedness: §Tables below) and by the `db` correspondence engine.
All statements quantify over EVERY database state / operation / operation sequence, every point type
(`PtType` = the generated enumeration of `enum Event`), every event-buffer configuration
(`ev : TyVec Nat`, the per-type maxima of `EventBufferConfig`) and class-zero configuration.

Operations (`DbOp`, the session model's vocabulary): add, update, select (one READ header), write (cap),
unsol (classes, cap), clear (= confirm: `clear_written_events`), reset; `run db ops` folds `step`.
`DbOpX` = `DbOp` + `addCfg` (any configured static / event variation and dead-band) + `updateOpt` (any
measurement of any type, any `UpdateOptions`); `runX db ops` folds `stepX`.  The invariants are stated
over `runX` (they specialise to `run`: `runX_base`).
-/
namespace Dnp3.Props.Db
open Dnp3 Dnp3.DbM Dnp3.DbProofs

/-! ## Tables — the generated per-type tables are well formed

`Dnp3.Gen.DbT` is re-extracted from `outstation/database/**` on every run; the model's per-type
dispatch goes through it, and these statements are what the proofs below rest on.  A slip in one row
of the source (a counter slot, a type left out of a list, a READ arm that drops its range) breaks one
of them before any case runs. -/

/-- every `impl Insertable for measurement::X` reads its own maximum and its own counter, changes its own
    counter, and names its own `Event` variant -/
theorem insertable_slots_own (t : PtType) : Gen.DbT.insertable t = ⟨t, t, t, t, t, t, t⟩ :=
  DbTables.insertable_own t

/-- `TypeCounter::modify` and the `match` of `Counters::decrement` pick the counter of the record's type -/
theorem counter_dispatch_own (t : PtType) : Gen.DbT.typeCounterModify t = t ∧ Gen.DbT.countersDecrement t = t :=
  ⟨DbTables.typeCounterModify_own t, DbTables.countersDecrement_own t⟩

/-- `EventBuffer::is_any_full` asks every type exactly once; `EventBufferConfig::max_events` (the capacity
    of the shared event list) adds every type's maximum exactly once -/
theorem is_any_full_each_type_once (t : PtType) :
    Gen.DbT.isAnyFull.count t = 1 ∧ Gen.DbT.maxEventsSum.count t = 1 :=
  ⟨DbTables.isAnyFull_each_once t, DbTables.maxEventsSum_each_once t⟩

/-- the header variants of `select_by_header`, `StaticDatabase::select`, `write_range` and the accessors of
    `impl Updatable` lead to the type they are named after; `select_class_zero` visits every type once, in
    the order of `enum Event` -/
theorem header_dispatch_own (t : PtType) :
    Gen.DbT.eventHdrTy t = t ∧ Gen.DbT.staticHdrTy t = t ∧ Gen.DbT.writeRangeTy t = t ∧
    Gen.DbT.updatable t = ⟨t, t, t, decide (t ≠ .octetString), t⟩ ∧ Gen.DbT.classZeroOrder = Gen.DbT.Ty.all :=
  ⟨DbTables.eventHdrTy_own t, DbTables.staticHdrTy_own t, DbTables.writeRangeTy_own t, DbTables.updatable_own t,
   DbTables.classZeroOrder_all⟩

/-- every arm of `ReadHeader::from_all_objects / from_count / from_range` maps the variation to the type
    whose group it is, requests exactly that variation (none for variation 0) and keeps the request's
    count / range (`from_all_objects` has none to keep) -/
theorem read_arms_well_formed :
    Gen.DbT.readAllObjects.all (DbTables.armOk false) = true ∧ Gen.DbT.readCount.all (DbTables.armOk true) = true ∧
    Gen.DbT.readRange.all (DbTables.armOk true) = true :=
  ⟨DbTables.readAllObjects_wf, DbTables.readCount_wf, DbTables.readRange_wf⟩

/-! ## C03 — the event buffer -/

/-- events are kept oldest first with strictly increasing ids below `next`: an invariant of
    every operation sequence from a fresh database -/
theorem ordered_invariant (ev : TyVec Nat) (cz : TyVec Bool) (sel : Option Nat) (ops : List DbOpX) :
    Ordered (runX (Db.newCfg ev cz sel) ops) :=
  ordered_runX _ ops (newCfg_ordered ev cz sel)

/-- … and it is preserved by every single operation from any state that has it -/
theorem ordered_preserved (db : Db) (op : DbOpX) (h : Ordered db) : Ordered (stepX db op) :=
  ordered_stepX db op h

example : Ordered (run (Db.new 2 none) [.add .binary 0 1, .update .binary 0 1 1 5, .update .binary 0 0 1 6]) := by
  decide

/-- … for a mix of types with their own capacities (frozen counters 1, octet strings 2) -/
example : Ordered (run (Db.newCfg ⟨0, 0, 0, 0, 1, 0, 0, 2⟩ (TyVec.const true) none)
    [.add .frozenCounter 7 1, .add .octetString 0 2, .update .frozenCounter 7 5 1 5,
     .update .octetString (encodeIdx .octetString 0) (natOfOctets [1, 2]) 0 0, .update .frozenCounter 7 6 1 6]) := by
  decide

/-- `total` (per class and per type) equals the number of records of that class / type: an
    invariant of every operation sequence, overflow included -/
theorem total_exact_invariant (ev : TyVec Nat) (cz : TyVec Bool) (sel : Option Nat) (ops : List DbOpX) :
    TotalExact (runX (Db.newCfg ev cz sel) ops) :=
  total_runX _ ops (newCfg_total ev cz sel)

/-- `counters_exact`: `total` AND `written` counters equal the per-class / per-type counts of
    records / of `Written` records: an invariant of every operation sequence from a fresh database,
    the overflow of a `Written` record out of the buffer included (false before the repair of D3:
    `insert` left `written` too high) -/
theorem counters_exact (ev : TyVec Nat) (cz : TyVec Bool) (sel : Option Nat) (ops : List DbOpX) :
    CountersExact (runX (Db.newCfg ev cz sel) ops) :=
  counters_runX _ ops (newCfg_counters ev cz sel)

/-- … in particular of every sequence of the session model's operations, the configuration written as
    the number `Db.new` takes -/
theorem counters_exact_session (evMax : Nat) (sel : Option Nat) (ops : List DbOp) :
    CountersExact (run (Db.new evMax sel) ops) :=
  counters_run _ ops (new_counters evMax sel)

/-- … and it is preserved by every single operation from any state that has it -/
theorem counters_exact_preserved (db : Db) (op : DbOpX) (h : CountersExact db) : CountersExact (stepX db op) :=
  counters_stepX db op h

/-- one step: every operation preserves `WrittenExact` (no side condition: an update that discards
    a `Written` record takes it out of `written` too) -/
theorem written_exact_preserved (db : Db) (op : DbOpX) (h : WrittenExact db) : WrittenExact (stepX db op) :=
  written_stepX db op h

/-- the former D3 witness: binary max 1, a class-1 event carried by an unsolicited response
    (`Written`), then a class-2 event of the same type overflows it out -/
def d3Witness : List DbOp :=
  [.add .binary 0 1, .add .binary 1 2, .update .binary 0 1 1 100, .unsol true false false 300,
   .update .binary 1 1 1 200]

/-- the hypotheses are satisfiable by a state in which the next update discards a `Written` record -/
example : CountersExact (run (Db.new 1 none) (d3Witness.take 4)) ∧
    (run (Db.new 1 none) (d3Witness.take 4)).events.map (·.st) = [.written] := by
  decide

/-- the former D3 witness history now leaves exact counters: the discarded `Written` class-1 record
    is gone from `written` as well (`written.class1 = total.class1 = 0`; before the repair
    `written.class1 = 1`), `unwritten_classes` does not panic and reports class 2 only -/
theorem counters_exact_former_witness :
    CountersExact (run (Db.new 1 none) d3Witness) ∧
    (run (Db.new 1 none) d3Witness).unwrittenClasses = some (false, true, false) ∧
    (run (Db.new 1 none) d3Witness).written.c1 = 0 ∧ (run (Db.new 1 none) d3Witness).total.c1 = 0 := by
  decide

/-- the checked decrements of `insert` (`Count::decrement`, `-= 1`) never underflow: with exact
    counters the record an overflow of type `t` discards is counted in `total` (type, then class) and,
    when it is `Written`, in `written` (type, then class) -/
theorem discard_decrements_no_underflow (db : Db) (t : PtType) (d : EvRec) (rest : List EvRec)
    (h : CountersExact db) (hrem : removeFirstTy t db.events = some (d, rest)) :
    1 ≤ db.total.ty t ∧ (d.cls = 1 ∨ d.cls = 2 ∨ d.cls = 3 → 1 ≤ (db.total.decTy t).cls d.cls) ∧
    (d.st = .written →
      1 ≤ db.written.ty t ∧ (d.cls = 1 ∨ d.cls = 2 ∨ d.cls = 3 → 1 ≤ (db.written.decTy t).cls d.cls)) :=
  insert_decrements_no_underflow db t d rest h hrem

example : removeFirstTy .binary (run (Db.new 1 none) (d3Witness.take 4)).events =
    some ({ id := 0, index := 0, cls := 1, ty := .binary, m := { value := 1, flags := 1, time := 100 },
            defVar := 1, selVar := 1, st := .written }, []) := by
  decide

/-- `clear` and `reset` establish `WrittenExact` from ANY state -/
theorem written_exact_restored (db : Db) : WrittenExact db.clearWritten.1 ∧ WrittenExact db.reset :=
  ⟨clear_written db, reset_written db⟩

/-- `clearWritten` (a confirmed response) removes exactly the `Written` records, reports exactly
    their ids in buffer order (oldest first), zeroes `written`, and returns the remaining
    per-class totals -/
theorem clear_releases_exactly_written (db : Db) :
    db.clearWritten.1.events = db.events.filter (fun r => !isWritten r) ∧
    db.clearWritten.2.1 = (db.events.filter isWritten).map (·.id) ∧
    db.clearWritten.1.written = {} ∧
    db.clearWritten.2.2 = (db.clearWritten.1.total.c1, db.clearWritten.1.total.c2, db.clearWritten.1.total.c3) := by
  obtain ⟨h1, h2, h3, _, _, _, h7, _⟩ := clear_spec db
  exact ⟨h1, h2, h3, h7⟩

/-- released ids are strictly increasing (so no id is released twice by one clear), and after the
    clear no record with a released id is left -/
theorem clear_releases_once (db : Db) (h : Ordered db) :
    db.clearWritten.2.1.Pairwise (· < ·) ∧
    ∀ r ∈ db.clearWritten.1.events, r.id ∉ db.clearWritten.2.1 := by
  obtain ⟨h1, h2, _⟩ := clear_spec db
  rw [h1, h2]
  constructor
  · exact List.pairwise_map.mpr (h.1.sublist List.filter_sublist)
  · intro r hr hmem
    obtain ⟨hr1, hr2⟩ := List.mem_filter.mp hr
    obtain ⟨x, hx, hid⟩ := List.mem_map.mp hmem
    obtain ⟨hx1, hx2⟩ := List.mem_filter.mp hx
    have : x = r := ordered_id_inj h.1 hx1 hr1 hid
    subst this
    simp [hx2] at hr2

/-- `reset` releases nothing: same records (ids, indices, classes, types, values) in the same
    order, every one `Unselected`, `written` zeroed, static selection dropped -/
theorem reset_releases_nothing (db : Db) :
    db.reset.events.map core = db.events.map core ∧
    (∀ r ∈ db.reset.events, r.st = .unselected) ∧ db.reset.written = {} ∧ db.reset.queue = [] := by
  obtain ⟨_, h2, h3, _, h5, _, _, _, h9⟩ := reset_spec db
  exact ⟨h2, h3, h5, h9⟩

/-- `select` (any READ header) only ever moves records `Unselected` → `Selected`; counters,
    ids, overflow flag untouched -/
theorem select_only_selects (db : Db) (h : ReadHdr) :
    Pointwise SelStep db.events (db.select h).1.events ∧
    (db.select h).1.total = db.total ∧ (db.select h).1.written = db.written ∧
    (db.select h).1.next = db.next ∧ (db.select h).1.overflown = db.overflown := by
  obtain ⟨h1, h2, h3, h4, _, h6⟩ := select_sel db h
  exact ⟨h1, h2, h3, h4, h6⟩

/-- `write_response_headers`: a prefix (in buffer order) of the `Selected` records becomes
    `Written` — exactly the records whose encodings open the response; `has_events` says
    whether that prefix is non-empty; if it is not all of them the response is incomplete and
    carries no static data -/
theorem write_marks_prefix (db : Db) (cap : Nat) :
    ∃ n, let w := (db.events.filter isSelected).take n
      (db.writeResponse cap).1.events = markFirst n db.events ∧
      n = w.length ∧
      (∃ st, (db.writeResponse cap).2.1 = encodeEvents none w ++ st ∧
        (w ≠ db.events.filter isSelected → st = [])) ∧
      (db.writeResponse cap).2.2.1 = !w.isEmpty ∧
      (w ≠ db.events.filter isSelected → (db.writeResponse cap).2.2.2 = false) := by
  obtain ⟨n, h1, h2, h3, _, _, _, _, _, _, _, _, _, h13, h14⟩ := writeEvents_spec db cap
  refine ⟨n, ?_⟩
  simp only []
  have hw : (db.writeEvents cap).2.1 = (db.events.filter isSelected).take n := h2
  have hev : (db.writeResponse cap).1.events = (db.writeEvents cap).1.events := (writeResponse_eb db cap).1
  refine ⟨by rw [hev, h1], by rw [← hw]; exact h3, ?_, ?_, ?_⟩
  · unfold Db.writeResponse
    simp only []
    split
    · exact ⟨_, by rw [hw], fun hne => absurd (by
        rename_i hc
        have := h13 hc
        rw [this, List.take_length]) hne⟩
    · exact ⟨[], by rw [hw, List.append_nil], fun _ => rfl⟩
  · unfold Db.writeResponse
    simp only []
    split <;> rw [hw]
  · intro hne
    unfold Db.writeResponse
    simp only []
    split
    · rename_i hc
      exfalso; apply hne
      rw [h13 hc, List.take_length]
    · rfl

/-- `write_unsolicited` = reset, select the classes, write events only: its octets are exactly
    the encodings of the prefix it marked `Written` -/
theorem unsol_marks_prefix (db : Db) (c1 c2 c3 : Bool) (cap : Nat) :
    ∃ dbs n, EbSel db.reset dbs ∧
      (db.writeUnsolicited c1 c2 c3 cap).1.events = markFirst n dbs.events ∧
      (db.writeUnsolicited c1 c2 c3 cap).2.1 = encodeEvents none ((dbs.events.filter isSelected).take n) ∧
      (db.writeUnsolicited c1 c2 c3 cap).2.2 = ((dbs.events.filter isSelected).take n).length := by
  unfold Db.writeUnsolicited
  simp only []
  refine ⟨{ db.reset with events := (selectEvents (fun r => (c1 && r.cls == 1) || (c2 && r.cls == 2) || (c3 && r.cls == 3)) none none db.reset.events).1 }, ?_⟩
  split
  · exact ⟨0, ⟨selectEvents_pointwise _ _ _ _, rfl, rfl, rfl, rfl, rfl⟩, by simp [markFirst], by simp [encodeEvents], by simp⟩
  · obtain ⟨n, h1, h2, _⟩ := writeEvents_spec
      { db.reset with events := (selectEvents (fun r => (c1 && r.cls == 1) || (c2 && r.cls == 2) || (c3 && r.cls == 3)) none none db.reset.events).1 } cap
    exact ⟨n, ⟨selectEvents_pointwise _ _ _ _, rfl, rfl, rfl, rfl, rfl⟩, h1, by rw [← h2], by rw [← h2]⟩

/-- `kept`: whatever the operation, every record stays in the buffer with its id, index,
    class, type, value/flags/time and default variation — unless the operation is an update that
    REPORTS it as its overflow discard, or a `clear` that reports its id as released -/
theorem kept (db : Db) (op : DbOp) (r : EvRec) (hr : r ∈ db.events) :
    SurvivesIn r (step db op).events ∨ Lost db op r :=
  DbProofs.kept db op r hr

/-- an overflow is reported, raises the overflow flag, and discards the OLDEST record of the type -/
theorem overflow_reported_discards_oldest (db : Db) (idx cls : Nat) (t : PtType) (m : Meas) (dv c dId : Nat)
    (ho : Ordered db) (h : (db.insert idx cls t m dv).2 = .overflow c dId) :
    ∃ d ∈ db.events, d.id = dId ∧ d.ty = t ∧ (db.insert idx cls t m dv).1.overflown = true ∧
      ∀ r ∈ db.events, r.ty = t → r ≠ d → d.id < r.id :=
  overflow_discards_oldest db idx cls t m dv c dId ho h

example : (((((Db.new 1 none).add .binary 0 1).1.update .binary 0 1 1 5).1).insert 0 1 .binary {} 1).2
    = .overflow 1 0 := by decide

/-! ## C13 — internal indications -/

/-- `class_bits_exact`: after every operation sequence from a fresh database `unwritten_classes`
    does not panic and bit c is set iff the buffer holds a class-c record that is not `Written` -/
theorem class_bits_exact (ev : TyVec Nat) (cz : TyVec Bool) (sel : Option Nat) (ops : List DbOpX) :
    ∃ b1 b2 b3, (runX (Db.newCfg ev cz sel) ops).unwrittenClasses = some (b1, b2, b3) ∧
      (b1 = true ↔ ∃ r ∈ (runX (Db.newCfg ev cz sel) ops).events, r.cls = 1 ∧ r.st ≠ .written) ∧
      (b2 = true ↔ ∃ r ∈ (runX (Db.newCfg ev cz sel) ops).events, r.cls = 2 ∧ r.st ≠ .written) ∧
      (b3 = true ↔ ∃ r ∈ (runX (Db.newCfg ev cz sel) ops).events, r.cls = 3 ∧ r.st ≠ .written) :=
  class_bits_exact_of_counters _ (counters_exact ev cz sel ops)

/-- … and after every single operation from any state with exact counters -/
theorem class_bits_exact_step (db : Db) (op : DbOpX) (h : CountersExact db) :
    ∃ b1 b2 b3, (stepX db op).unwrittenClasses = some (b1, b2, b3) ∧
      (b1 = true ↔ ∃ r ∈ (stepX db op).events, r.cls = 1 ∧ r.st ≠ .written) ∧
      (b2 = true ↔ ∃ r ∈ (stepX db op).events, r.cls = 2 ∧ r.st ≠ .written) ∧
      (b3 = true ↔ ∃ r ∈ (stepX db op).events, r.cls = 3 ∧ r.st ≠ .written) :=
  class_bits_exact_of_counters _ (counters_stepX db op h)

/-- `no_counter_underflow`: the checked subtraction `total - written` of `unwritten_classes`
    (`Count::subtract`) never underflows on a database reached from a fresh one by any operation
    sequence (`none` = the panic of the dev build) -/
theorem no_counter_underflow (ev : TyVec Nat) (cz : TyVec Bool) (sel : Option Nat) (ops : List DbOpX) :
    (runX (Db.newCfg ev cz sel) ops).unwrittenClasses ≠ none := by
  obtain ⟨b1, b2, b3, h, _⟩ := class_bits_exact ev cz sel ops
  rw [h]; simp

/-- … nor after any single operation from any state with exact counters -/
theorem no_counter_underflow_step (db : Db) (op : DbOpX) (h : CountersExact db) :
    (stepX db op).unwrittenClasses ≠ none := by
  obtain ⟨b1, b2, b3, h', _⟩ := class_bits_exact_step db op h
  rw [h']; simp

/-- the overflow flag: raised by every discard, never lowered by an insert, and after a clear it
    is set iff it was set and some type is still at capacity -/
theorem overflow_flag_interval (db : Db) (idx cls : Nat) (t : PtType) (m : Meas) (dv : Nat) :
    (∀ c d, (db.insert idx cls t m dv).2 = .overflow c d → (db.insert idx cls t m dv).1.isOverflown = true) ∧
    (db.isOverflown = true → (db.insert idx cls t m dv).1.isOverflown = true) ∧
    db.clearWritten.1.isOverflown = (db.isOverflown && db.clearWritten.1.isAnyFull) :=
  ⟨fun c d h => overflow_set_on_discard db idx cls t m dv c d h,
   overflow_kept_by_insert db idx cls t m dv, overflow_after_clear db⟩

/-- nothing but insert and clear changes the flag -/
theorem overflow_flag_frame (db : Db) (op : DbOp)
    (h : match op with | .update .. => False | .clear => False | _ => True) :
    (step db op).isOverflown = db.isOverflown := by
  cases op with
  | add t idx cls => exact (add_eb db t idx cls).2.2.2.2.2
  | update t idx v f tm => exact absurd h id
  | select hd => exact (select_sel db hd).2.2.2.2.2
  | write cap =>
    show (db.writeResponse cap).1.overflown = db.overflown
    rw [(writeResponse_eb db cap).2.2.2.2.2]
    obtain ⟨_, _, _, _, _, _, _, _, h9, _⟩ := writeEvents_spec db cap
    exact h9
  | unsol c1 c2 c3 cap =>
    show (db.writeUnsolicited c1 c2 c3 cap).1.overflown = db.overflown
    obtain ⟨dbs, hs, he | he⟩ := writeUnsolicited_eb db c1 c2 c3 cap <;> rw [he]
    · exact hs.2.2.2.2.2
    · obtain ⟨_, _, _, _, _, _, _, _, h9, _⟩ := writeEvents_spec dbs cap
      rw [h9]; exact hs.2.2.2.2.2
  | clear => exact absurd h id
  | reset => rfl

/-- with exact totals (always, `total_exact_invariant`) "some type at capacity" is a statement
    about the records in the buffer: some type with a non-zero maximum holds at least that many records -/
theorem any_full_iff (db : Db) (h : TotalExact db) :
    db.isAnyFull = true ↔
      ∃ t, db.evCfg.get t ≠ 0 ∧ db.evCfg.get t ≤ db.events.countP (fun r => r.ty == t) :=
  isAnyFull_iff db h

/-- no type ever holds more events than its configured maximum, and the shared event list never more than
    the sum of the maxima — the capacity the library gives its `VecList` (so that `VecList::add` cannot
    fail, which `EventBuffer::insert` does not check) -/
theorem type_capacity (ev : TyVec Nat) (cz : TyVec Bool) (sel : Option Nat) (ops : List DbOpX) (t : PtType) :
    (runX (Db.newCfg ev cz sel) ops).events.countP (fun r => r.ty == t) ≤ ev.get t := by
  have ht := total_exact_invariant ev cz sel ops
  have hb := typeBounded_runX _ ops (newCfg_total ev cz sel) (newCfg_typeBounded ev cz sel) t
  rw [evCfg_runX] at hb
  have e : (runX (Db.newCfg ev cz sel) ops).total.ty t =
      (runX (Db.newCfg ev cz sel) ops).events.countP (fun r => r.ty == t) := by
    rw [ht, tallyBy_ty]; simp [anyRec]
  rw [← e]; exact hb

theorem events_within_capacity (ev : TyVec Nat) (cz : TyVec Bool) (sel : Option Nat) (ops : List DbOpX) :
    (runX (Db.newCfg ev cz sel) ops).events.length ≤ (Gen.DbT.maxEventsSum.map fun t => ev.get t).sum :=
  events_within_capacityX ev cz sel ops

/-- frozen counters 1, counters 3: the second frozen-counter event discards the first although the
    counter type has room (each type is bounded by ITS OWN maximum) -/
example : ((runX (Db.newCfg ⟨0, 0, 0, 3, 1, 0, 0, 0⟩ (TyVec.const true) none)
    [.addCfg .frozenCounter 0 1 1 1 0, .updateOpt .frozenCounter 0 (mkMeas .frozenCounter 5 1 10) {},
     .updateOpt .frozenCounter 0 (mkMeas .frozenCounter 6 1 11) {}]).events.map (·.id)) = [1] := by decide

/-! ## C03 / C02 — the event rule (dead-band) -/

/-- `event_iff_beyond_deadband`: an update of an existing point in `EventMode::Detect` wants an event iff the
    flags as reported changed or — for the types whose detector has a dead-band — the new value differs from
    the value LAST REPORTED as an event by more than the point's dead-band (binary types: the reported flags
    carry the state; octet strings: the octets differ); `Force` always does, `Suppress` never -/
theorem event_iff_beyond_deadband (t : PtType) (p : Point) (m : Meas) :
    (wantsEvent t p m .detect = true ↔
      match Gen.DbT.detector t with
      | .flags => p.lastEvent.wire t ≠ m.wire t
      | .deadband => p.lastEvent.wire t ≠ m.wire t ∨ (m.value - p.lastEvent.value).natAbs > p.deadband
      | .value => p.lastEvent.octets ≠ m.octets) ∧
    wantsEvent t p m .force = true ∧ wantsEvent t p m .suppress = false :=
  ⟨isEvent_iff t p.deadband p.lastEvent m, rfl, rfl⟩

/-- … the update reports `created` / `overflow` exactly when an event is wanted, the point has an event
    class and the type's buffer is not switched off … -/
theorem update_creates_event_iff (db : Db) (t : PtType) (idx : Nat) (m : Meas) (o : UpdOpts) (p : Point)
    (hp : pmLookup (db.map t) idx = some p) :
    ((∃ id, (db.updateOpt t idx m o).2 = .created id) ∨ (∃ c d, (db.updateOpt t idx m o).2 = .overflow c d)) ↔
      (wantsEvent t p m o.mode = true ∧ p.cls ≠ 0 ∧ db.evCfg.get t ≠ 0) :=
  updateOpt_event_iff db t idx m o p hp

/-- … and `last reported` (the detector's baseline `lastEvent`) becomes the new value exactly when an event
    is wanted and is left alone otherwise; the static value follows `update_static`; nothing else of the
    point, and no other point, changes -/
theorem last_reported_moves_only_with_event (db : Db) (t : PtType) (idx : Nat) (m : Meas)
    (o : UpdOpts) (p : Point) (hp : pmLookup (db.map t) idx = some p) :
    ∃ p', pmLookup ((db.updateOpt t idx m o).1.map t) idx = some p' ∧
      p'.lastEvent = (if wantsEvent t p m o.mode then m else p.lastEvent) ∧
      p'.current = (if o.updateStatic then m else p.current) ∧
      p'.selected = p.selected ∧ p'.cls = p.cls ∧ p'.svar = p.svar ∧ p'.evar = p.evar ∧ p'.deadband = p.deadband := by
  obtain ⟨db0, p', he, hm, f1, f2, f3, f4, f5, f6, f7, _, h1 | ⟨_, _, h1⟩⟩ := updateOpt_point db t idx m o p hp
  · refine ⟨p', ?_, f2, f1, f3, f4, f5, f6, f7⟩
    rw [h1]; simp only []; rw [hm]
    exact pmLookup_pmSet_same (db.map t) idx p p' hp
  · refine ⟨p', ?_, f2, f1, f3, f4, f5, f6, f7⟩
    rw [h1]; simp only []
    have : (db0.insert idx p.cls t m p.evar).1.map t = db0.map t := by
      rcases insert_cases db0 idx p.cls t m p.evar with ⟨_, hi⟩ | ⟨_, _, _, _, _, hi⟩ | ⟨_, _, hi⟩ <;> rw [hi] <;> rfl
    rw [this, hm]
    exact pmLookup_pmSet_same (db.map t) idx p p' hp

/-- the drift of the property's example: dead-band 5, values 0 → 3 → 6: Created, NoEvent, Created — the third
    value is 6 away from the value last REPORTED (0), although only 3 away from the previous update -/
example :
    let db0 := (((Db.newCfg (TyVec.const 10) (TyVec.const true) none).addCfg .analog 0 1 1 1 5).1.updateOpt .analog 0
      (mkMeas .analog 0 1 100) {}).1
    (db0.updateOpt .analog 0 (mkMeas .analog 3 1 101) {}).2 = .noEvent ∧
    ((db0.updateOpt .analog 0 (mkMeas .analog 3 1 101) {}).1.updateOpt .analog 0 (mkMeas .analog 6 1 102) {}).2 =
      .created 1 := by decide

/-! ## C11 — the static database: READ series -/

/-- the point maps are sorted by index (the `BTreeMap` order) in every reachable state -/
theorem static_sorted_invariant (ev : TyVec Nat) (cz : TyVec Bool) (sel : Option Nat) (ops : List DbOpX) :
    StaticSorted (runX (Db.newCfg ev cz sel) ops) :=
  sorted_runX _ ops (newCfg_sorted ev cz sel)

/-- what a queued READ header stands for: every existing point of its range exactly once, in
    ascending index order, with the point's `selected` (snapshot) cell -/
theorem selected_header_is_range (db : Db) (hs : StaticSorted db) (it : SelItem) :
    (itemObjs db it).Pairwise (fun a b => a.idx < b.idx) ∧
    (itemObjs db it).map (·.idx) = ((mapOf db it).filter (fun p => inRange it p.1)).map (·.1) ∧
    (∀ k var, it.kind = .typed k var →
      (itemObjs db it).map (fun o => (o.idx, o.m)) =
        ((mapOf db it).filter (fun p => inRange it p.1)).map (fun p => (p.1, p.2.selected))) :=
  itemObjs_exactly_once db hs it

/-- `series_covers_exactly_once`: in a series of writes (any capacities), interleaved with
    updates and confirms, concatenating the static objects of the successive responses until the
    selection is exhausted (`complete`) yields exactly the objects the request selected — header by
    header, each existing selected point exactly once in ascending index order
    (`selected_header_is_range`): resumption never repeats or skips -/
theorem series_covers_exactly_once (db : Db) (hs : StaticSorted db) (ops : List SOp)
    (hend : (seriesEnd db ops).queue = []) :
    seriesObjs db ops = (db.queue.map (itemObjs db)).flatten := by
  have := series_conserves ops db hs
  rw [hend] at this
  simpa [pending] using this

/-- a two-fragment series with an update in between satisfies the hypotheses (and ends complete) -/
example :
    let db := run (Db.new 0 none) [.add .analog 0 0, .add .analog 2 0, .add .analog 4 0,
      .update .analog 2 20 1 2, .select { group := 60, var := 1, qual := 6 }]
    StaticSorted db ∧ (seriesEnd db [.write 12, .update .analog 4 7 1 9, .write 300]).queue = [] ∧
    (seriesObjs db [.write 12, .update .analog 4 7 1 9, .write 300]).map (fun o => (o.idx, o.m.value)) =
      [(0, 0), (2, 20), (4, 0)] := by
  decide

/-- … and at every intermediate point of the series: emitted so far ++ still selected = selected -/
theorem series_conserves (db : Db) (hs : StaticSorted db) (ops : List SOp) :
    seriesObjs db ops ++ ((seriesEnd db ops).queue.map (itemObjs (seriesEnd db ops))).flatten =
      (db.queue.map (itemObjs db)).flatten :=
  DbProofs.series_conserves ops db hs

/-- the octets of one response are the event encodings followed by the encodings of the static
    objects counted above (one range-header run per queue entry) -/
theorem response_octets (db : Db) (hs : StaticSorted db) (cap : Nat) :
    (db.writeResponse cap).2.1 =
      encodeEvents none (db.writeEvents cap).2.1 ++ (writeStaticObjs db cap).flatMap (encodeStatic none) :=
  (writeResponse_static db hs cap).1

/-
FULL STATEMENT (false on the unchanged tree, D12): for every operation sequence between the
request and the last fragment — `add` included — the series reports, for each point that existed
when the request was processed, the value it had then, and nothing else.
-/
/-- `series_is_snapshot`, partial (no `add` during the series): a READ of one static range on an
    idle database, answered over any number of fragments with updates / confirms in between,
    reports exactly the points that existed in the range when the request was processed, ascending,
    each once, with the value / flags they had at that moment -/
theorem series_is_snapshot_partial (db : Db) (hs : StaticSorted db) (hidle : db.queue = [])
    (hroom : db.queue.length ≠ db.selCap)
    (t : PtType) (var : Option Nat) (a b : Nat) (ops : List SOp)
    (hend : (seriesEnd (db.selectStatic t var (some (a, b))).1 ops).queue = []) :
    (seriesObjs (db.selectStatic t var (some (a, b))).1 ops).map (fun o => (o.idx, o.m)) =
      ((db.map t).filter (fun p => decide (a ≤ p.1) && decide (p.1 ≤ b))).map (fun p => (p.1, p.2.current)) := by
  obtain ⟨hq, hsnap⟩ := selectStatic_snapshot db t var a b hroom
  have hs' := (selectStatic_keys db t var (some (a, b))).sorted hs
  rw [series_covers_exactly_once _ hs' ops hend, hq, hidle]
  simp only [List.nil_append, List.map_cons, List.map_nil, List.flatten_cons, List.flatten_nil, List.append_nil]
  exact hsnap

example : StaticSorted ((Db.new 0 none).add .analog 3 0).1 ∧ ((Db.new 0 none).add .analog 3 0).1.queue = [] := by
  decide

/-- the D12 history: analogs 0, 2, 4; READ class 0; first fragment (12 octets) carries index 0;
    then analog 3 is added and updated to 99 / ONLINE; the second fragment follows -/
def d12Setup : List DbOp :=
  [.add .analog 0 0, .add .analog 2 0, .add .analog 4 0, .update .analog 0 10 1 1,
   .update .analog 2 20 1 2, .update .analog 4 40 1 3, .select { group := 60, var := 1, qual := 6 }]

/-- D12: the series reports index 3 with value 0 / flags RESTART — a value the point never
    had outside the adding transaction, for a point that did not exist when the request was processed -/
theorem series_is_snapshot_counterexample :
    let db0 := run (Db.new 0 none) d12Setup
    let db1 := step db0 (.write 12)
    let db2 := run db1 [.add .analog 3 0, .update .analog 3 99 1 4]
    (writeStaticObjs db0 12).flatten ++ (writeStaticObjs db2 300).flatten ≠ (db0.queue.map (itemObjs db0)).flatten ∧
    ({ idx := 3, g := 30, v := 1, m := { value := 0, flags := 2, time := 0 } } : SObj) ∈ (writeStaticObjs db2 300).flatten ∧
    (db2.writeResponse 300).2.2.2 = true := by
  decide

/-- `progress`: when every single object with its header fits the buffer (`FitsCap`: 22 octets suffice for
    every fixed-size variation of the seven fixed-size types; an octet string needs its length + 7), a
    response that is not complete carries at least one object — so a series terminates.  An octet string
    that does not fit makes the series an endless run of empty fragments (D15) -/
theorem progress (db : Db) (cap : Nat) (hfit : FitsCap db cap) (hinc : (db.writeResponse cap).2.2.2 = false) :
    (db.writeEvents cap).2.1 ≠ [] ∨ (writeStaticObjs db cap).flatten ≠ [] :=
  write_progress db cap hfit hinc

/-- … for a database without octet strings 22 octets are enough -/
theorem progress_fixed (db : Db) (cap : Nat) (hcap : 22 ≤ cap) (hev : ∀ r ∈ db.events, r.ty ≠ .octetString)
    (hpt : db.map .octetString = []) (hinc : (db.writeResponse cap).2.2.2 = false) :
    (db.writeEvents cap).2.1 ≠ [] ∨ (writeStaticObjs db cap).flatten ≠ [] :=
  write_progress_fixed db cap hcap hev hpt hinc

/-- the hypothesis matters: with 5 octets nothing fits and the response is empty and incomplete -/
example : ((((Db.new 0 none).add .analog 0 0).1.select { group := 60, var := 1, qual := 6 }).1.writeResponse 5).2
    = ([], false, false) := by
  decide

/-- a response never exceeds the space left in the transmit buffer (the incremental cost the
    writers charge is exactly the length of the octets they produce) -/
theorem response_within_capacity (db : Db) (cap : Nat) :
    (db.writeResponse cap).2.1.length ≤ cap ∧
    ∀ c1 c2 c3, (db.writeUnsolicited c1 c2 c3 cap).2.1.length ≤ cap :=
  ⟨DbProofs.response_within_capacity db cap, fun c1 c2 c3 => unsolicited_within_capacity db c1 c2 c3 cap⟩

end Dnp3.Props.Db
