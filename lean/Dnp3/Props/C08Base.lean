import Dnp3.Model.Transport
/-!
# C08 — The transport layer delivers exactly the fragments that were segmented
-/
namespace Dnp3.Props.C08
open Dnp3

/-- transport header octet round trip: `Header::from_u8 (to_u8 h) = h` for 6-bit sequence numbers -/
theorem theader_roundtrip (fin fir : Bool) (seq : Fin 64) :
    THeader.ofNat (THeader.toNat ⟨fin, fir, seq.val⟩) = ⟨fin, fir, seq.val⟩ := by
  revert fin fir seq; decide

/-- the sequence number wraps from 63 to 0 and otherwise increments: it is `+1 mod 64` -/
theorem seqNext_mod (v : Nat) (h : v < 64) : seqNext v = (v + 1) % 64 := by
  unfold seqNext; split <;> omega

/-- `frameId` either stays, or advances by exactly one (mod 2^32) and then the assembler holds a
    completed fragment carrying the old id, the segment's source and broadcast mode; resetting
    the assembler state never touches it (C04 relies on this) -/
theorem frame_id_counts (a : Assembler) (info : FrameInfo) (hdr : THeader) (p : List Nat) :
    (a.assemble info hdr p).frameId = a.frameId ∨
    ((a.assemble info hdr p).frameId = (a.frameId + 1) % 4294967296 ∧
      ∃ len, (a.assemble info hdr p).st = .complete ⟨a.frameId, info.source, info.broadcast⟩ len) := by
  unfold Assembler.assemble Assembler.append
  simp only
  repeat' split
  all_goals simp_all

end Dnp3.Props.C08
