import Dnp3.Model.MasterSession
import Dnp3.Proofs.Master
/-!
# C15 — A master accepts only the answer to its question and confirms what it accepts

Theorems over the model of `master/task.rs` (`validate_non_read_response`,
`process_read_response`, `handle_unsolicited`) and `association.rs`
(`handle_unsolicited_response`), for ALL responses, sequence numbers, sources and states.
The model is tied to the code by the correspondence run of engine `master`.
-/
namespace Dnp3.Props.C15
open Dnp3 Dnp3.Master

/-- a non-READ task accepts a response exactly when it is solicited, comes from the addressed
    outstation, carries the request's sequence number, is FIR and FIN and has no IIN2 request
    error -/
theorem nonread_accept_iff (dest seq src : Nat) (r : Resp) :
    validateNonRead dest seq src r = .accept ↔
      (r.unsol = false ∧ src = dest ∧ r.ctrl.seq = seq ∧ r.ctrl.fir = true ∧ r.ctrl.fin = true ∧ badIin2 r.iin2 = false) := by
  unfold validateNonRead
  constructor
  · intro h
    split at h <;> try contradiction
    split at h <;> try contradiction
    split at h <;> try contradiction
    split at h <;> try contradiction
    split at h <;> try contradiction
    simp_all
  · rintro ⟨h1, h2, h3, h4, h5, h6⟩
    simp [h1, h2, h3, h4, h5, h6]

/-- wrong source or wrong sequence number: the fragment is ignored (the wait continues), it
    never fails or completes the task -/
theorem nonread_stale_or_foreign_ignored (dest seq src : Nat) (r : Resp) (hs : r.unsol = false)
    (h : src ≠ dest ∨ r.ctrl.seq ≠ seq) : validateNonRead dest seq src r = .ignore := by
  unfold validateNonRead
  rcases h with h | h
  · simp [hs, h]
  · by_cases h2 : src = dest <;> simp [hs, h, h2]

/-- everything that is matched but not acceptable fails the task: nothing else completes it -/
theorem nonread_matched_not_accepted_fails (dest seq : Nat) (r : Resp) (hs : r.unsol = false)
    (hseq : r.ctrl.seq = seq) (hbad : ¬ (r.ctrl.fir = true ∧ r.ctrl.fin = true ∧ badIin2 r.iin2 = false)) :
    ∃ e, validateNonRead dest seq dest r = .fail e := by
  unfold validateNonRead
  simp only [hs, hseq]
  by_cases h1 : r.ctrl.fir = true <;> by_cases h2 : r.ctrl.fin = true <;> by_cases h3 : badIin2 r.iin2 = true <;>
    simp_all

example : validateNonRead 1024 3 1024 ⟨⟨true, true, false, false, 3⟩, false, 0, 0, [], some []⟩ = .accept := by decide

/-- fragment of a READ is accepted exactly when it is solicited, from the addressed outstation,
    has the expected sequence number, FIR exactly on the first fragment, CON on every non-final
    one, no IIN2 request error, and its objects parse; `confirm` / `final` are its CON / FIN bits -/
theorem read_accept_iff (dest seq src : Nat) (isFirst assocExists : Bool) (r : Resp) (c f : Bool) :
    processReadResponse dest seq isFirst assocExists src r = .accept c f ↔
      (r.unsol = false ∧ src = dest ∧ r.ctrl.seq = seq ∧ r.ctrl.fir = isFirst ∧ (r.ctrl.fin = true ∨ r.ctrl.con = true) ∧
       badIin2 r.iin2 = false ∧ assocExists = true ∧ r.objects.isSome = true ∧ c = r.ctrl.con ∧ f = r.ctrl.fin) := by
  unfold processReadResponse
  constructor
  · intro h
    split at h <;> try contradiction
    split at h <;> try contradiction
    split at h <;> try contradiction
    split at h <;> try contradiction
    split at h <;> try contradiction
    split at h <;> try contradiction
    split at h <;> try contradiction
    split at h <;> try contradiction
    split at h <;> try contradiction
    injection h with hc hf
    cases hfir : r.ctrl.fir <;> cases hfin : r.ctrl.fin <;> cases hcon : r.ctrl.con <;> cases isFirst <;>
      simp_all [Option.isSome_iff_ne_none]
  · rintro ⟨h1, h2, h3, h4, h5, h6, h7, h8, h9, h10⟩
    subst h9 h10
    cases hfir : r.ctrl.fir <;> cases hfin : r.ctrl.fin <;> cases hcon : r.ctrl.con <;> cases isFirst <;>
      simp_all [Option.isSome_iff_ne_none]

example : processReadResponse 1024 5 true true 1024 ⟨⟨true, false, true, false, 5⟩, false, 0, 0, [], some []⟩ = .accept true false := by
  decide

/-- a read never delivers or confirms a fragment it does not accept: every other verdict is
    `unsolicited` (handled separately), `ignore` or `fail` -/
theorem read_not_accepted (dest seq src : Nat) (isFirst ae : Bool) (r : Resp) :
    (∃ c f, processReadResponse dest seq isFirst ae src r = .accept c f) ∨
    processReadResponse dest seq isFirst ae src r = .unsolicited ∨
    processReadResponse dest seq isFirst ae src r = .ignore ∨
    (∃ e b, processReadResponse dest seq isFirst ae src r = .fail e b) := by
  unfold processReadResponse
  repeat' split
  all_goals simp

/-- an unsolicited fragment is confirmed exactly when it is accepted (start-up finished or no
    objects) and asks for it — with its own sequence number and the UNS bit (`doUnsolicited`
    emits `[0xD0 + seq, 0]`) -/
theorem unsolicited_confirm_iff (ic : Bool) (last : Option UnsolKey) (r : Resp) :
    (handleUnsolicited ic last r).confirm = true ↔ ((ic = true ∨ r.raw = []) ∧ r.ctrl.con = true) := by
  unfold handleUnsolicited
  cases ic <;> cases hr : r.raw <;> simp [List.isEmpty] <;> split <;> simp

/-- a repeated unsolicited fragment (same header, same objects) is confirmed but not delivered again -/
theorem duplicate_unsolicited (ic : Bool) (r : Resp) (h : ic = true ∨ r.raw = []) :
    handleUnsolicited ic (some r.key) r = ⟨true, true, false, r.ctrl.con⟩ := by
  unfold handleUnsolicited
  rcases h with h | h <;> simp [h, List.isEmpty]

/-- a fragment that differs from the previous one in header or objects is not treated as a duplicate -/
theorem fresh_unsolicited_delivered (ic : Bool) (last : Option UnsolKey) (r : Resp) (h : ic = true ∨ r.raw = [])
    (hne : last ≠ some r.key) : handleUnsolicited ic last r = ⟨true, false, r.objects.isSome, r.ctrl.con⟩ := by
  unfold handleUnsolicited
  rcases h with h | h <;> simp [h, hne, List.isEmpty]

/-- KNOWN FINDING D23: an accepted unsolicited fragment whose objects do not parse is confirmed
    although nothing is delivered (the outstation will discard the events it carried) -/
theorem unsolicited_unparsable_confirmed_counterexample :
    let r : Resp := ⟨⟨true, true, true, true, 0⟩, true, 0, 0, [0x63, 0x01, 0x00, 0x00, 0x00, 0x01], none⟩
    handleUnsolicited true none r = ⟨true, false, false, true⟩ := by decide

-- ------------------------------------------------------------------------------------------
-- confirmation at the level of the session step
-- ------------------------------------------------------------------------------------------

/-
Full statement (`confirm_exactly_when`): every accepted fragment with CON is confirmed exactly
once with the same sequence number and UNS bit, and nothing else is confirmed.  It holds for
READ tasks (`read_confirm_exactly_when`) and for unsolicited responses
(`unsolicited_confirm_iff`); for non-READ tasks the unchanged code accepts a CON-flagged
response and sends NO confirm (finding D8): `nonread_confirm_counterexample`.
-/

/-- D8 witness: the master's DISABLE_UNSOLICITED (seq 0) is answered `E0 81 00 00` (FIR FIN CON):
    the response is accepted (the task succeeds and the integrity poll goes out), no confirm is sent -/
def d8State : MState :=
  { assocs := [{ addr := 1024, cfg := {}, seq := 1 }], ring := [1024],
    mode := .waitNonRead 1024 (.auto .disableUnsol 7) 0 21 5000 }

theorem nonread_confirm_counterexample :
    let res := Master.step d8State (.rx 1024 1 [0xE0, 0x81, 0x00, 0x00])
    res.2 = [.taskSuccess 1024 .disableUnsolicited 21 0, .taskStart 1024 .startupIntegrity 1 1,
             .tx 1024 [0xC1, 0x01, 0x3c, 0x02, 0x06, 0x3c, 0x03, 0x06, 0x3c, 0x04, 0x06, 0x3c, 0x01, 0x06]] ∧
    confirmsOf res.2 = [] := by decide

/-- READ tasks: the fragment handler emits exactly one confirm, with the fragment's sequence
    number and without the UNS bit, iff the fragment is accepted and has CON; otherwise none -/
theorem read_confirm_exactly_when_partial (s : MState) (dest seq dl : Nat) (t : ReadTask) (isFirst : Bool)
    (src : Nat) (frag : List Nat) (r : Resp) (hm : s.mode = .waitRead dest t seq isFirst dl)
    (hp : parseResponse frag = some r) (hu : r.unsol = false) :
    confirmsOf (Step.outs (onFragment (s, []) src frag)) =
      (match processReadResponse dest seq isFirst (s.getAssoc dest).isSome src r with
       | .accept true _ => [(dest, 0xC0 + seq)]
       | _ => []) :=
  Proofs.Master.read_confirms s dest seq dl t isFirst src frag r hm hp hu

end Dnp3.Props.C15
