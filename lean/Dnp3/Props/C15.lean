import Dnp3.Model.MasterSession
import Dnp3.Proofs.Master
/-!
# C15 — A master accepts only the answer to its question and confirms what it accepts

Theorems over the model of `master/task.rs` (`validate_non_read_response`,
`process_read_response`, `handle_unsolicited`) and `association.rs`
(`handle_unsolicited_response`), for ALL responses, sequence numbers, sources and states.
The model is tied to the code by the correspondence run of engine `master`.
-/
namespace Dnp3.Props.C15
open Dnp3 Dnp3.Master

/-- a non-READ task accepts a response exactly when it is solicited, comes from the addressed
    outstation, carries the request's sequence number, is FIR and FIN and has no IIN2 request
    error -/
theorem nonread_accept_iff (dest seq src : Nat) (r : Resp) :
    validateNonRead dest seq src r = .accept ↔
      (r.unsol = false ∧ src = dest ∧ r.ctrl.seq = seq ∧ r.ctrl.fir = true ∧ r.ctrl.fin = true ∧ badIin2 r.iin2 = false) := by
  unfold validateNonRead
  constructor
  · intro h
    split at h <;> try contradiction
    split at h <;> try contradiction
    split at h <;> try contradiction
    split at h <;> try contradiction
    split at h <;> try contradiction
    simp_all
  · rintro ⟨h1, h2, h3, h4, h5, h6⟩
    simp [h1, h2, h3, h4, h5, h6]

/-- wrong source or wrong sequence number: the fragment is ignored (the wait continues), it
    never fails or completes the task -/
theorem nonread_stale_or_foreign_ignored (dest seq src : Nat) (r : Resp) (hs : r.unsol = false)
    (h : src ≠ dest ∨ r.ctrl.seq ≠ seq) : validateNonRead dest seq src r = .ignore := by
  unfold validateNonRead
  rcases h with h | h
  · simp [hs, h]
  · by_cases h2 : src = dest <;> simp [hs, h, h2]

/-- everything that is matched but not acceptable fails the task: nothing else completes it -/
theorem nonread_matched_not_accepted_fails (dest seq : Nat) (r : Resp) (hs : r.unsol = false)
    (hseq : r.ctrl.seq = seq) (hbad : ¬ (r.ctrl.fir = true ∧ r.ctrl.fin = true ∧ badIin2 r.iin2 = false)) :
    ∃ e, validateNonRead dest seq dest r = .fail e := by
  unfold validateNonRead
  simp only [hs, hseq]
  by_cases h1 : r.ctrl.fir = true <;> by_cases h2 : r.ctrl.fin = true <;> by_cases h3 : badIin2 r.iin2 = true <;>
    simp_all

example : validateNonRead 1024 3 1024 ⟨⟨true, true, false, false, 3⟩, false, 0, 0, [], some []⟩ = .accept := by decide

/-- fragment of a READ is accepted exactly when it is solicited, from the addressed outstation,
    has the expected sequence number, FIR exactly on the first fragment, CON on every non-final
    one, no IIN2 request error, and its objects parse; `confirm` / `final` are its CON / FIN bits -/
theorem read_accept_iff (dest seq src : Nat) (isFirst assocExists : Bool) (r : Resp) (c f : Bool) :
    processReadResponse dest seq isFirst assocExists src r = .accept c f ↔
      (r.unsol = false ∧ src = dest ∧ r.ctrl.seq = seq ∧ r.ctrl.fir = isFirst ∧ (r.ctrl.fin = true ∨ r.ctrl.con = true) ∧
       badIin2 r.iin2 = false ∧ assocExists = true ∧ r.objects.isSome = true ∧ c = r.ctrl.con ∧ f = r.ctrl.fin) := by
  unfold processReadResponse
  constructor
  · intro h
    split at h <;> try contradiction
    split at h <;> try contradiction
    split at h <;> try contradiction
    split at h <;> try contradiction
    split at h <;> try contradiction
    split at h <;> try contradiction
    split at h <;> try contradiction
    split at h <;> try contradiction
    split at h <;> try contradiction
    injection h with hc hf
    cases hfir : r.ctrl.fir <;> cases hfin : r.ctrl.fin <;> cases hcon : r.ctrl.con <;> cases isFirst <;>
      simp_all [Option.isSome_iff_ne_none]
  · rintro ⟨h1, h2, h3, h4, h5, h6, h7, h8, h9, h10⟩
    subst h9 h10
    cases hfir : r.ctrl.fir <;> cases hfin : r.ctrl.fin <;> cases hcon : r.ctrl.con <;> cases isFirst <;>
      simp_all [Option.isSome_iff_ne_none]

example : processReadResponse 1024 5 true true 1024 ⟨⟨true, false, true, false, 5⟩, false, 0, 0, [], some []⟩ = .accept true false := by
  decide

/-- a read never delivers or confirms a fragment it does not accept: every other verdict is
    `unsolicited` (handled separately), `ignore` or `fail` -/
theorem read_not_accepted (dest seq src : Nat) (isFirst ae : Bool) (r : Resp) :
    (∃ c f, processReadResponse dest seq isFirst ae src r = .accept c f) ∨
    processReadResponse dest seq isFirst ae src r = .unsolicited ∨
    processReadResponse dest seq isFirst ae src r = .ignore ∨
    (∃ e b, processReadResponse dest seq isFirst ae src r = .fail e b) := by
  unfold processReadResponse
  repeat' split
  all_goals simp

/-- an unsolicited fragment is confirmed exactly when it is accepted (start-up finished or no
    objects, and its objects parse) and asks for it — with its own sequence number and the UNS
    bit (`doUnsolicited` emits `[0xD0 + seq, 0]`, `unsolicited_confirm_exactly_when`) -/
theorem unsolicited_confirm_iff (ic : Bool) (last : Option UnsolKey) (r : Resp) :
    (handleUnsolicited ic last r).confirm = true ↔
      ((ic = true ∨ r.raw = []) ∧ r.objects.isSome = true ∧ r.ctrl.con = true) := by
  unfold handleUnsolicited
  cases ic <;> cases hr : r.raw <;> cases ho : r.objects <;> simp [List.isEmpty] <;> split <;> simp

/-- a repeated unsolicited fragment (same header, same objects) is confirmed but not delivered again -/
theorem duplicate_unsolicited (ic : Bool) (r : Resp) (h : ic = true ∨ r.raw = []) (ho : r.objects.isSome = true) :
    handleUnsolicited ic (some r.key) r = ⟨true, true, false, r.ctrl.con⟩ := by
  unfold handleUnsolicited
  have : r.objects.isNone = false := by cases hr : r.objects <;> simp_all
  rcases h with h | h <;> simp [h, this, List.isEmpty]

/-- a fragment that differs from the previous one in header or objects is not treated as a
    duplicate: it is delivered -/
theorem fresh_unsolicited_delivered (ic : Bool) (last : Option UnsolKey) (r : Resp) (h : ic = true ∨ r.raw = [])
    (ho : r.objects.isSome = true) (hne : last ≠ some r.key) :
    handleUnsolicited ic last r = ⟨true, false, true, r.ctrl.con⟩ := by
  unfold handleUnsolicited
  have : r.objects.isNone = false := by cases hr : r.objects <;> simp_all
  rcases h with h | h <;> simp [h, hne, this, List.isEmpty]

example :
    let r : Resp := ⟨⟨true, true, true, true, 1⟩, true, 0, 0, [2, 1, 0x17, 1, 5, 0x81], some [⟨2, 1, 0x17, 1, 0, [5, 0x81]⟩]⟩
    handleUnsolicited true none r = ⟨true, false, true, true⟩ := by decide

/-- an unsolicited fragment whose objects do not parse is ignored altogether: not remembered as
    the last fragment (`valid`), not delivered, not confirmed — whatever the start-up state and
    the CON bit (finding D23, repaired: the unchanged code confirmed it, so that the outstation
    discarded events that never reached the handler) -/
theorem unsolicited_unparsable_ignored (ic : Bool) (last : Option UnsolKey) (r : Resp) (h : r.objects = none) :
    handleUnsolicited ic last r = ⟨false, false, false, false⟩ := by
  unfold handleUnsolicited
  simp [h]

/-- the former D23 witness: unknown group 99 with CON — now ignored -/
example :
    let r : Resp := ⟨⟨true, true, true, true, 0⟩, true, 0, 0, [0x63, 0x01, 0x00, 0x00, 0x00, 0x01], none⟩
    handleUnsolicited true none r = ⟨false, false, false, false⟩ := by decide

/-- `confirmed_contents_delivered`: whatever is confirmed was delivered to the handler, now or (a
    duplicate) by the identical previous fragment -/
theorem unsolicited_confirmed_contents_delivered (ic : Bool) (last : Option UnsolKey) (r : Resp)
    (h : (handleUnsolicited ic last r).confirm = true) :
    r.objects.isSome = true ∧
      ((handleUnsolicited ic last r).deliver = true ∨ (handleUnsolicited ic last r).duplicate = true) := by
  have h' := (unsolicited_confirm_iff ic last r).1 h
  refine ⟨h'.2.1, ?_⟩
  unfold handleUnsolicited at h ⊢
  by_cases h1 : (ic || r.raw.isEmpty) = true <;> by_cases h2 : r.objects.isNone = true <;>
    by_cases h3 : last = some r.key <;> simp_all

-- ------------------------------------------------------------------------------------------
-- confirmation at the level of the session step
-- ------------------------------------------------------------------------------------------

/-
`confirm_exactly_when`: every accepted fragment with CON is confirmed exactly once, to its sender,
with the same sequence number and UNS bit, and nothing else is confirmed.  Proved below for the
fragment handler `onFragment` in EVERY session mode: READ tasks (`read_confirm_exactly_when`),
non-READ tasks (`nonread_confirm_exactly_when`; finding D8 — a CON-flagged response to a non-READ
task was accepted and never confirmed — is repaired in the library, the witness is now the
regression `nonread_confirm_d8_regression` and `harness/corpus/C15/master_D8.ops`), unsolicited
responses (`unsolicited_confirm_exactly_when`), and all of them together (`confirm_exactly_when`).
-/

/-- READ tasks: the fragment handler emits exactly one confirm, with the fragment's sequence
    number and without the UNS bit, iff the fragment is accepted and has CON; otherwise none -/
theorem read_confirm_exactly_when (s : MState) (dest seq dl : Nat) (t : ReadTask) (isFirst : Bool)
    (src : Nat) (frag : List Nat) (r : Resp) (hm : s.mode = .waitRead dest t seq isFirst dl)
    (hp : parseResponse frag = some r) (hu : r.unsol = false) :
    confirmsOf (Step.outs (onFragment (s, []) src frag)) =
      (match processReadResponse dest seq isFirst (s.getAssoc dest).isSome src r with
       | .accept true _ => [(dest, 0xC0 + seq)]
       | _ => []) :=
  Proofs.Master.read_confirms s dest seq dl t isFirst src frag r hm hp hu

/-- non-READ tasks: exactly one confirm (request's sequence number, no UNS bit, to the addressed
    outstation) iff the response is accepted (`nonread_accept_iff`) and has CON; otherwise none —
    whatever the task then does with the response (fail on its contents, complete, or send the
    next request of a multi-step task) -/
theorem nonread_confirm_exactly_when (s : MState) (dest seq fc0 dl : Nat) (t : NonReadTask) (src : Nat)
    (frag : List Nat) (r : Resp) (hm : s.mode = .waitNonRead dest t seq fc0 dl)
    (hp : parseResponse frag = some r) (hu : r.unsol = false) :
    confirmsOf (Step.outs (onFragment (s, []) src frag)) =
      (match validateNonRead dest seq src r with
       | .accept => if r.ctrl.con then [(dest, 0xC0 + seq)] else []
       | _ => []) :=
  Proofs.Master.nonread_confirms s dest seq fc0 dl t src frag r hm hp hu

example :
    let s : MState := { assocs := [{ addr := 1024, cfg := {}, seq := 4 }], ring := [1024],
                        mode := .waitNonRead 1024 (.restart 1 true) 3 13 5000 }
    confirmsOf (Step.outs (onFragment (s, []) 1024 [0xE3, 129, 0, 0, 0x34, 0x01, 0x07, 0x01, 0x07, 0x00])) = [(1024, 0xC3)] := by
  decide

/-- unsolicited responses (`handle_unsolicited`, called from every session mode): exactly one
    confirm with the fragment's own sequence number and the UNS bit, to its source, iff the
    association exists and the decision (`unsolicited_confirm_iff`, taken after `process_iin`) says
    so; otherwise none -/
theorem unsolicited_confirm_exactly_when (a : Acc) (src : Nat) (r : Resp) :
    confirmsOf (doUnsolicited a src r).2 = confirmsOf a.2 ++
      (match a.1.getAssoc src with
       | none => []
       | some x => if (unsolDecision x r).confirm then [(src, 0xD0 + r.ctrl.seq)] else []) :=
  Proofs.Master.doUnsolicited_confirms a src r

/-- an unsolicited fragment that is not accepted (start-up not finished, or — D23 repaired — objects
    that do not parse) leaves no trace: no delivery, no callback, no confirm, and it is not
    remembered as the last fragment (so its retransmission is not taken for a duplicate) -/
theorem unsolicited_not_accepted_no_trace (a : Acc) (src : Nat) (r : Resp) (x : Assoc) (hx : a.1.getAssoc src = some x)
    (hv : (unsolDecision x r).valid = false) :
    (doUnsolicited a src r).2 = a.2 ∧ ((doUnsolicited a src r).1.getAssoc src).map (·.lastUnsol) = some x.lastUnsol :=
  ⟨Proofs.Master.doUnsolicited_invalid_outs a src r x hx hv, Proofs.Master.doUnsolicited_invalid_lastUnsol a src r x hx hv⟩

/-- in particular for unparsable objects, in any start-up state -/
theorem unsolicited_unparsable_no_trace (a : Acc) (src : Nat) (r : Resp) (x : Assoc) (hx : a.1.getAssoc src = some x)
    (h : r.objects = none) :
    (doUnsolicited a src r).2 = a.2 ∧ ((doUnsolicited a src r).1.getAssoc src).map (·.lastUnsol) = some x.lastUnsol :=
  unsolicited_not_accepted_no_trace a src r x hx (by
    unfold unsolDecision
    rw [unsolicited_unparsable_ignored _ _ r h])

example :
    let a : Acc := ({ assocs := [{ addr := 1024, cfg := {}, integrityDone := true }], ring := [1024], mode := .idle none }, [])
    (doUnsolicited a 1024 ⟨⟨true, true, true, true, 0⟩, true, 0, 0, [0x63, 0x01, 0x00, 0x00, 0x00, 0x01], none⟩).2 = [] := by
  decide

/-- `confirm_exactly_when`, full statement: for every state, source and parsed fragment the
    confirms emitted by the fragment handler are exactly `expectedConfirms` — none when no session
    runs; for an unsolicited fragment the unsolicited rule; for a solicited one the READ rule in a
    READ wait, the non-READ rule in a non-READ wait, none when idle or in a link status check -/
theorem confirm_exactly_when (s : MState) (src : Nat) (frag : List Nat) (r : Resp) (hp : parseResponse frag = some r) :
    confirmsOf (Step.outs (onFragment (s, []) src frag)) = expectedConfirms s src r :=
  Proofs.Master.confirm_exactly_when s src frag r hp

/-- a fragment that does not parse as a response is never confirmed -/
theorem unparsed_never_confirmed (s : MState) (src : Nat) (frag : List Nat) (hp : parseResponse frag = none) :
    confirmsOf (Step.outs (onFragment (s, []) src frag)) = [] := by
  unfold onFragment
  cases hm : s.mode <;>
    simp only [hp, Step.outs, Step.acc, Proofs.Master.finishRead_confirms, Proofs.Master.taskOnError_confirms] <;> rfl

/-- regression for D8 (repaired): the master's DISABLE_UNSOLICITED (seq 0) is answered `E0 81 00 00`
    (FIR FIN CON): the response is accepted and confirmed (`C0 00`), the task succeeds and the
    integrity poll goes out.  Before the repair no confirm was sent. -/
def d8State : MState :=
  { assocs := [{ addr := 1024, cfg := {}, seq := 1 }], ring := [1024],
    mode := .waitNonRead 1024 (.auto .disableUnsol 7) 0 21 5000 }

theorem nonread_confirm_d8_regression :
    let res := Master.step d8State (.rx 1024 1 [0xE0, 0x81, 0x00, 0x00])
    res.2 = [.tx 1024 [0xC0, 0x00], .taskSuccess 1024 .disableUnsolicited 21 0, .taskStart 1024 .startupIntegrity 1 1,
             .tx 1024 [0xC1, 0x01, 0x3c, 0x02, 0x06, 0x3c, 0x03, 0x06, 0x3c, 0x04, 0x06, 0x3c, 0x01, 0x06]] ∧
    confirmsOf res.2 = [(1024, 0xC0)] := by decide

/-- the sequence number `n` requests / accepted series fragments after `s` -/
def seqAfter : Nat → Nat → Nat
  | 0, s => s
  | n+1, s => seq4Next (seqAfter n s)

/-- Arithmetic core of the monitor `request_seq_fresh` (S176): the association's counter is advanced by `seq4Next`
once per request (`sendRequest`) and once per accepted non-final fragment of a read series (`stepFragment`,
`.waitRead … .accept`), so a request issued after fewer than 16 such steps never carries a sequence number
that one of them used: a late fragment of an abandoned series cannot match it. -/
theorem request_seq_fresh_within_window :
    ∀ s, s < 16 → ∀ n, n < 16 → 0 < n → seqAfter n s ≠ s := by decide

example : seqAfter 3 14 = 1 := by decide

end Dnp3.Props.C15
