import Dnp3.Props.DbComponent
import Dnp3.Proofs.OutstationC03A
import Dnp3.Proofs.OutstationC03Db
/-!
# C03 — No event is lost, invented, or released before a confirmed response carried it

Database-component theorems (`Dnp3.Model.Database`, proofs in `Dnp3.Proofs.Database`) for EVERY
database state / operation / operation sequence, ALL EIGHT point types of the library's database and
every per-type event-buffer configuration, restated verbatim from `Dnp3.Props.DbComponent`
(namespace `Dnp3.Props.Db`), which also carries the satisfiability `example`s:

* the generated per-type tables (`Dnp3.Gen.DbT`, re-extracted from `outstation/database/**` on every run)
  are well formed: every `impl Insertable` touches its own maximum, counter and `Event` variant
  (`insertable_slots_own`, `counter_dispatch_own`), `is_any_full` / `max_events` mention every type once
  (`is_any_full_each_type_once`), the header variants lead to the type they name (`header_dispatch_own`);
* no type ever holds more events than ITS OWN maximum and the shared event list never more than the sum of
  the maxima (`type_capacity`, `events_within_capacity`);
* the event rule: an update in `Detect` mode creates an event iff the flags changed or the value is beyond
  the point's dead-band of the value LAST REPORTED as an event, and that baseline moves only with an event
  (`event_iff_beyond_deadband`, `update_creates_event_iff`, `last_reported_moves_only_with_event`);

* events are kept oldest first with unique increasing ids (`ordered_*`), counters are exact
  (`total_exact_invariant`, `counters_exact` for every operation sequence, `counters_exact_preserved`
  per operation; the former D3 witness: `counters_exact_former_witness`), the checked counter
  decrements of an overflow cannot underflow (`discard_decrements_no_underflow`);
* an event leaves the buffer only by `clearWritten` (exactly the `Written` records, oldest first,
  each id once: `clear_releases_*`) or by an overflow that is reported and discards the oldest record
  of the type (`kept`, `overflow_reported_discards_oldest`); `reset` (timeout, new request) releases
  nothing and returns every record to the pool (`reset_releases_nothing`);
* responses mark exactly a prefix, in buffer order, of the selected records as written and carry
  exactly those (`write_marks_prefix`, `unsol_marks_prefix`), selection never touches anything but
  `Unselected → Selected` (`select_only_selects`).

Which session paths call `clearWritten` / `reset` is the session model's part
(`Dnp3.Model.Outstation`, tied by the `outstationdb` correspondence engine and the event-ledger
monitors): section "Session level" at the end of this file (proofs in
`Dnp3.Proofs.OutstationC03`/`…C03A`/`…C03B`, database opaque; `…C03Db` instantiates the real database).
The session-level defects D4 (an unsolicited data series that ended without its confirm did not
reset the database) and D19 (neither did a disconnect) are repaired; the theorems there are the
full statements.
-/
namespace Dnp3.Props.C03
open Dnp3 Dnp3.DbM Dnp3.DbProofs Dnp3.Props.Db

/-- every `impl Insertable for measurement::X` reads its own maximum and its own counter, changes its own
    counter, and names its own `Event` variant -/
theorem insertable_slots_own (t : PtType) : Gen.DbT.insertable t = ⟨t, t, t, t, t, t, t⟩ :=
  @Dnp3.Props.Db.insertable_slots_own t

/-- `TypeCounter::modify` and the `match` of `Counters::decrement` pick the counter of the record's type -/
theorem counter_dispatch_own (t : PtType) : Gen.DbT.typeCounterModify t = t ∧ Gen.DbT.countersDecrement t = t :=
  @Dnp3.Props.Db.counter_dispatch_own t

/-- `EventBuffer::is_any_full` asks every type exactly once; `EventBufferConfig::max_events` (the capacity
    of the shared event list) adds every type's maximum exactly once -/
theorem is_any_full_each_type_once (t : PtType) :
    Gen.DbT.isAnyFull.count t = 1 ∧ Gen.DbT.maxEventsSum.count t = 1 :=
  @Dnp3.Props.Db.is_any_full_each_type_once t

/-- the header variants of `select_by_header`, `StaticDatabase::select`, `write_range` and the accessors of
    `impl Updatable` lead to the type they are named after; `select_class_zero` visits every type once, in
    the order of `enum Event` -/
theorem header_dispatch_own (t : PtType) :
    Gen.DbT.eventHdrTy t = t ∧ Gen.DbT.staticHdrTy t = t ∧ Gen.DbT.writeRangeTy t = t ∧
    Gen.DbT.updatable t = ⟨t, t, t, decide (t ≠ .octetString), t⟩ ∧ Gen.DbT.classZeroOrder = Gen.DbT.Ty.all :=
  @Dnp3.Props.Db.header_dispatch_own t

/-- events are kept oldest first with strictly increasing ids below `next`: an invariant of
    every operation sequence from a fresh database -/
theorem ordered_invariant (ev : TyVec Nat) (cz : TyVec Bool) (sel : Option Nat) (ops : List DbOpX) :
    Ordered (runX (Db.newCfg ev cz sel) ops) :=
  @Dnp3.Props.Db.ordered_invariant ev cz sel ops

/-- … and it is preserved by every single operation from any state that has it -/
theorem ordered_preserved (db : Db) (op : DbOpX) (h : Ordered db) : Ordered (stepX db op) :=
  @Dnp3.Props.Db.ordered_preserved db op h

/-- `total` (per class and per type) equals the number of records of that class / type: an
    invariant of every operation sequence, overflow included -/
theorem total_exact_invariant (ev : TyVec Nat) (cz : TyVec Bool) (sel : Option Nat) (ops : List DbOpX) :
    TotalExact (runX (Db.newCfg ev cz sel) ops) :=
  @Dnp3.Props.Db.total_exact_invariant ev cz sel ops

/-- `counters_exact`: `total` AND `written` counters equal the per-class / per-type counts of
    records / of `Written` records: an invariant of every operation sequence from a fresh database,
    the overflow of a `Written` record out of the buffer included (false before the repair of D3:
    `insert` left `written` too high) -/
theorem counters_exact (ev : TyVec Nat) (cz : TyVec Bool) (sel : Option Nat) (ops : List DbOpX) :
    CountersExact (runX (Db.newCfg ev cz sel) ops) :=
  @Dnp3.Props.Db.counters_exact ev cz sel ops

/-- … in particular of every sequence of the session model's operations, the configuration written as
    the number `Db.new` takes -/
theorem counters_exact_session (evMax : Nat) (sel : Option Nat) (ops : List DbOp) :
    CountersExact (run (Db.new evMax sel) ops) :=
  @Dnp3.Props.Db.counters_exact_session evMax sel ops

/-- … and it is preserved by every single operation from any state that has it -/
theorem counters_exact_preserved (db : Db) (op : DbOpX) (h : CountersExact db) : CountersExact (stepX db op) :=
  @Dnp3.Props.Db.counters_exact_preserved db op h

/-- one step: every operation preserves `WrittenExact` (no side condition: an update that discards
    a `Written` record takes it out of `written` too) -/
theorem written_exact_preserved (db : Db) (op : DbOpX) (h : WrittenExact db) : WrittenExact (stepX db op) :=
  @Dnp3.Props.Db.written_exact_preserved db op h

/-- the former D3 witness history now leaves exact counters: the discarded `Written` class-1 record
    is gone from `written` as well (`written.class1 = total.class1 = 0`; before the repair
    `written.class1 = 1`), `unwritten_classes` does not panic and reports class 2 only -/
theorem counters_exact_former_witness :
    CountersExact (run (Db.new 1 none) d3Witness) ∧
    (run (Db.new 1 none) d3Witness).unwrittenClasses = some (false, true, false) ∧
    (run (Db.new 1 none) d3Witness).written.c1 = 0 ∧ (run (Db.new 1 none) d3Witness).total.c1 = 0 :=
  @Dnp3.Props.Db.counters_exact_former_witness 

/-- the checked decrements of `insert` (`Count::decrement`, `-= 1`) never underflow: with exact
    counters the record an overflow of type `t` discards is counted in `total` (type, then class) and,
    when it is `Written`, in `written` (type, then class) -/
theorem discard_decrements_no_underflow (db : Db) (t : PtType) (d : EvRec) (rest : List EvRec)
    (h : CountersExact db) (hrem : removeFirstTy t db.events = some (d, rest)) :
    1 ≤ db.total.ty t ∧ (d.cls = 1 ∨ d.cls = 2 ∨ d.cls = 3 → 1 ≤ (db.total.decTy t).cls d.cls) ∧
    (d.st = .written →
      1 ≤ db.written.ty t ∧ (d.cls = 1 ∨ d.cls = 2 ∨ d.cls = 3 → 1 ≤ (db.written.decTy t).cls d.cls)) :=
  @Dnp3.Props.Db.discard_decrements_no_underflow db t d rest h hrem

/-- `clear` and `reset` establish `WrittenExact` from ANY state -/
theorem written_exact_restored (db : Db) : WrittenExact db.clearWritten.1 ∧ WrittenExact db.reset :=
  @Dnp3.Props.Db.written_exact_restored db

/-- `clearWritten` (a confirmed response) removes exactly the `Written` records, reports exactly
    their ids in buffer order (oldest first), zeroes `written`, and returns the remaining
    per-class totals -/
theorem clear_releases_exactly_written (db : Db) :
    db.clearWritten.1.events = db.events.filter (fun r => !isWritten r) ∧
    db.clearWritten.2.1 = (db.events.filter isWritten).map (·.id) ∧
    db.clearWritten.1.written = {} ∧
    db.clearWritten.2.2 = (db.clearWritten.1.total.c1, db.clearWritten.1.total.c2, db.clearWritten.1.total.c3) :=
  @Dnp3.Props.Db.clear_releases_exactly_written db

/-- released ids are strictly increasing (so no id is released twice by one clear), and after the
    clear no record with a released id is left -/
theorem clear_releases_once (db : Db) (h : Ordered db) :
    db.clearWritten.2.1.Pairwise (· < ·) ∧
    ∀ r ∈ db.clearWritten.1.events, r.id ∉ db.clearWritten.2.1 :=
  @Dnp3.Props.Db.clear_releases_once db h

/-- `reset` releases nothing: same records (ids, indices, classes, types, values) in the same
    order, every one `Unselected`, `written` zeroed, static selection dropped -/
theorem reset_releases_nothing (db : Db) :
    db.reset.events.map core = db.events.map core ∧
    (∀ r ∈ db.reset.events, r.st = .unselected) ∧ db.reset.written = {} ∧ db.reset.queue = [] :=
  @Dnp3.Props.Db.reset_releases_nothing db

/-- `select` (any READ header) only ever moves records `Unselected` → `Selected`; counters,
    ids, overflow flag untouched -/
theorem select_only_selects (db : Db) (h : ReadHdr) :
    Pointwise SelStep db.events (db.select h).1.events ∧
    (db.select h).1.total = db.total ∧ (db.select h).1.written = db.written ∧
    (db.select h).1.next = db.next ∧ (db.select h).1.overflown = db.overflown :=
  @Dnp3.Props.Db.select_only_selects db h

/-- `write_response_headers`: a prefix (in buffer order) of the `Selected` records becomes
    `Written` — exactly the records whose encodings open the response; `has_events` says
    whether that prefix is non-empty; if it is not all of them the response is incomplete and
    carries no static data -/
theorem write_marks_prefix (db : Db) (cap : Nat) :
    ∃ n, let w := (db.events.filter isSelected).take n
      (db.writeResponse cap).1.events = markFirst n db.events ∧
      n = w.length ∧
      (∃ st, (db.writeResponse cap).2.1 = encodeEvents none w ++ st ∧
        (w ≠ db.events.filter isSelected → st = [])) ∧
      (db.writeResponse cap).2.2.1 = !w.isEmpty ∧
      (w ≠ db.events.filter isSelected → (db.writeResponse cap).2.2.2 = false) :=
  @Dnp3.Props.Db.write_marks_prefix db cap

/-- `write_unsolicited` = reset, select the classes, write events only: its octets are exactly
    the encodings of the prefix it marked `Written` -/
theorem unsol_marks_prefix (db : Db) (c1 c2 c3 : Bool) (cap : Nat) :
    ∃ dbs n, EbSel db.reset dbs ∧
      (db.writeUnsolicited c1 c2 c3 cap).1.events = markFirst n dbs.events ∧
      (db.writeUnsolicited c1 c2 c3 cap).2.1 = encodeEvents none ((dbs.events.filter isSelected).take n) ∧
      (db.writeUnsolicited c1 c2 c3 cap).2.2 = ((dbs.events.filter isSelected).take n).length :=
  @Dnp3.Props.Db.unsol_marks_prefix db c1 c2 c3 cap

/-- `kept`: whatever the operation, every record stays in the buffer with its id, index,
    class, type, value/flags/time and default variation — unless the operation is an update that
    REPORTS it as its overflow discard, or a `clear` that reports its id as released -/
theorem kept (db : Db) (op : DbOp) (r : EvRec) (hr : r ∈ db.events) :
    SurvivesIn r (step db op).events ∨ Lost db op r :=
  @Dnp3.Props.Db.kept db op r hr

/-- an overflow is reported, raises the overflow flag, and discards the OLDEST record of the type -/
theorem overflow_reported_discards_oldest (db : Db) (idx cls : Nat) (t : PtType) (m : Meas) (dv c dId : Nat)
    (ho : Ordered db) (h : (db.insert idx cls t m dv).2 = .overflow c dId) :
    ∃ d ∈ db.events, d.id = dId ∧ d.ty = t ∧ (db.insert idx cls t m dv).1.overflown = true ∧
      ∀ r ∈ db.events, r.ty = t → r ≠ d → d.id < r.id :=
  @Dnp3.Props.Db.overflow_reported_discards_oldest db idx cls t m dv c dId ho h

/-- no type ever holds more events than its configured maximum, and the shared event list never more than
    the sum of the maxima — the capacity the library gives its `VecList` (so that `VecList::add` cannot
    fail, which `EventBuffer::insert` does not check) -/
theorem type_capacity (ev : TyVec Nat) (cz : TyVec Bool) (sel : Option Nat) (ops : List DbOpX) (t : PtType) :
    (runX (Db.newCfg ev cz sel) ops).events.countP (fun r => r.ty == t) ≤ ev.get t :=
  @Dnp3.Props.Db.type_capacity ev cz sel ops t

theorem events_within_capacity (ev : TyVec Nat) (cz : TyVec Bool) (sel : Option Nat) (ops : List DbOpX) :
    (runX (Db.newCfg ev cz sel) ops).events.length ≤ (Gen.DbT.maxEventsSum.map fun t => ev.get t).sum :=
  @Dnp3.Props.Db.events_within_capacity ev cz sel ops

/-- `event_iff_beyond_deadband`: an update of an existing point in `EventMode::Detect` wants an event iff the
    flags as reported changed or — for the types whose detector has a dead-band — the new value differs from
    the value LAST REPORTED as an event by more than the point's dead-band (binary types: the reported flags
    carry the state; octet strings: the octets differ); `Force` always does, `Suppress` never -/
theorem event_iff_beyond_deadband (t : PtType) (p : Point) (m : Meas) :
    (wantsEvent t p m .detect = true ↔
      match Gen.DbT.detector t with
      | .flags => p.lastEvent.wire t ≠ m.wire t
      | .deadband => p.lastEvent.wire t ≠ m.wire t ∨ (m.value - p.lastEvent.value).natAbs > p.deadband
      | .value => p.lastEvent.octets ≠ m.octets) ∧
    wantsEvent t p m .force = true ∧ wantsEvent t p m .suppress = false :=
  @Dnp3.Props.Db.event_iff_beyond_deadband t p m

/-- … the update reports `created` / `overflow` exactly when an event is wanted, the point has an event
    class and the type's buffer is not switched off … -/
theorem update_creates_event_iff (db : Db) (t : PtType) (idx : Nat) (m : Meas) (o : UpdOpts) (p : Point)
    (hp : pmLookup (db.map t) idx = some p) :
    ((∃ id, (db.updateOpt t idx m o).2 = .created id) ∨ (∃ c d, (db.updateOpt t idx m o).2 = .overflow c d)) ↔
      (wantsEvent t p m o.mode = true ∧ p.cls ≠ 0 ∧ db.evCfg.get t ≠ 0) :=
  @Dnp3.Props.Db.update_creates_event_iff db t idx m o p hp

/-- … and `last reported` (the detector's baseline `lastEvent`) becomes the new value exactly when an event
    is wanted and is left alone otherwise; the static value follows `update_static`; nothing else of the
    point, and no other point, changes -/
theorem last_reported_moves_only_with_event (db : Db) (t : PtType) (idx : Nat) (m : Meas)
    (o : UpdOpts) (p : Point) (hp : pmLookup (db.map t) idx = some p) :
    ∃ p', pmLookup ((db.updateOpt t idx m o).1.map t) idx = some p' ∧
      p'.lastEvent = (if wantsEvent t p m o.mode then m else p.lastEvent) ∧
      p'.current = (if o.updateStatic then m else p.current) ∧
      p'.selected = p.selected ∧ p'.cls = p.cls ∧ p'.svar = p.svar ∧ p'.evar = p.evar ∧ p'.deadband = p.deadband :=
  @Dnp3.Props.Db.last_reported_moves_only_with_event db t idx m o p hp

/-! ## Session level: where the session applies `clearWritten` and `reset` (D4, D19 repaired)

Over the session model `Dnp3.Model.Outstation`, for ALL states and inputs, with the database opaque
(the `Db` operations are irreducible in the proofs: `Dnp3.Proofs.OutstationC03A`, `…C03B`).
Definitions (`Dnp3.Proofs.OutstationC03`): `NoRelease db0 db` — `db` arises from `db0` by `select`,
`writeResponse`, `writeUnsolicited`, `reset` only; `ConfirmPoint pf a` — the fragment `pf` of the step
is a CONFIRM and either a solicited series awaits exactly its sequence number (`a.1.mode = .solWait sr …`,
`UNS` clear, `seq = sr.ecsn`) or a DATA unsolicited series does (`.unsolWait resp false …`, `UNS` set,
`seq = resp.ctrl.seq`); `DbEffect pf a a'` — either `NoRelease a.1.db a'.1.db` and no confirm callback is
appended, or `ConfirmPoint pf a ∧ a'.1.db = a.1.db.clearWritten.1 ∧ .cb .beginConfirm ∈ a'.2`;
`CleanContract Clean` — `reset`, `clearWritten`, `Db.new` establish `Clean`; `select`, `update`, `add`, a
response that carried no event and an unsolicited attempt that found nothing preserve it;
`OutsideSeries m` — `m` is `.idle _` or the confirm wait of a NULL unsolicited response;
`SessClean Clean s := OutsideSeries s.mode → Clean s.db`. -/
namespace Session
open Dnp3 Dnp3.Proofs.C03 Dnp3.Proofs.Skel Dnp3.Proofs.Frame

/-- (a) **`clearWritten` is applied only at the two confirm points.**  Every step that runs the session
    machinery is a chain of primitive events (`Skel.Ev`), each of which either releases nothing — the
    database changes by `select` / `writeResponse` / `writeUnsolicited` / `reset` only, and no
    `begin_confirm` / `event_cleared` / `end_confirm` callback is emitted — or happens at a confirm point
    (solicited CONFIRM with the expected sequence number while a solicited series awaits it; unsolicited
    CONFIRM with the sequence number of the DATA series that awaits it) and applies exactly `clearWritten` -/
theorem clear_only_on_confirm (env : OEnv) (s : OState) (inp : OInput) :
    (∃ f, inp = .setScript f ∧ Outstation.step env s inp = ({ s with script := f s.script }, [])) ∨
    Outstation.step env s inp = (s, []) ∨
    ∃ pf s0 o0, StepInit env s inp pf s0 o0 ∧ Star (EvDb pf) (s0, o0) (Outstation.step env s inp) :=
  Dnp3.Proofs.C03.clear_only_on_confirm env s inp

/-- the database effect of every primitive event (what `EvDb` adds to `Ev`) -/
theorem event_db_effect {pf : Option Frag} {a a' : Acc} (h : Ev pf a a') : DbEffect pf a a' :=
  Dnp3.Proofs.C03.Ev.dbEffect h

/-- (a), step-level corollary: a step whose fragment is not a CONFIRM (function code 0) releases no event —
    the database after the step arises from the database after the step's prologue (`StepInit`: the
    transaction / added point applied; `reset` for a disconnect) by non-releasing operations — and emits
    no confirm callback -/
theorem no_confirm_no_release (env : OEnv) (s : OState) (inp : OInput) :
    (∃ f, inp = .setScript f ∧ Outstation.step env s inp = ({ s with script := f s.script }, [])) ∨
    Outstation.step env s inp = (s, []) ∨
    ∃ pf s0 o0, StepInit env s inp pf s0 o0 ∧
      ((∀ f ctrl objs raw, ¬ ReqOf pf f ctrl 0 objs raw) →
        NoRelease s0.db (Outstation.step env s inp).1.db ∧
        ∀ o ∈ (Outstation.step env s inp).2, OOut.kind o ≠ .confirm) :=
  Dnp3.Proofs.C03.no_confirm_no_release env s inp

/-- (b) the exact sites where a series that ends WITHOUT its confirm resets the database, before anything
    else runs: solicited — `Confirm::Timeout` and `Confirm::NewRequest` are `abortSeries`; … -/
theorem abortSeries_resets (a : Acc) (cont : SolCont) :
    abortSeries a cont = resumeAfterSol ({ a.1 with db := a.1.db.reset }, a.2) cont :=
  Dnp3.Proofs.C03.abortSeries_resets a cont

theorem solWaitTimeout_aborts (a : Acc) (series : Series) (cont : SolCont) :
    solWaitTimeout a series cont = abortSeries (emitCb a (.solTimeout series.ecsn)) cont :=
  Dnp3.Proofs.C03.solWaitTimeout_aborts a series cont

/-- … unsolicited DATA series — retries exhausted, ended by DISABLE_UNSOLICITED, or cut short by a deferred
    READ: all three are `afterUnsolSeries _ false false` (D4 repaired) … -/
theorem unsol_series_end_resets (a : Acc) : (afterUnsolSeries a false false).1.1.db = a.1.db.reset :=
  Dnp3.Proofs.C03.unsol_series_end_resets a

/-- … and a disconnect, in whatever mode (D19 repaired): the state the next session starts from -/
theorem cut_resets (s : OState) : (cutState s).db = s.db.reset :=
  Dnp3.Proofs.C03.cut_resets s

/-- (b) **outside a response series the database is clean** — the invariant, one step from ANY state
    satisfying it, for ANY input: for every `Clean` meeting the contract, if `Clean s.db` whenever `s` is
    outside a series (idle, or waiting for the confirm of a NULL unsolicited response), the same holds after
    the step.  Since only `reset` and `clearWritten` ESTABLISH `Clean`, every way a series ends — confirmed
    (`clearWritten`), or without its confirm: solicited timeout / new request, unsolicited retries exhausted /
    DISABLE_UNSOLICITED / deferred READ, disconnect (`reset`) — has applied one of the two before the
    session is outside a series again, i.e. before the next response is written from the database -/
theorem step_sessClean {Clean : Db → Prop} (K : CleanContract Clean) (env : OEnv) (s : OState) (inp : OInput)
    (h : SessClean Clean s) : SessClean Clean (Outstation.step env s inp).1 :=
  Dnp3.Proofs.C03.step_sessClean K env s inp h

/-- … over all histories from construction -/
theorem reachable_sessClean {Clean : Db → Prop} (K : CleanContract Clean) {cfg : OCfg} {evMax : Nat} {env : OEnv}
    {s : OState} (hr : Outstation.Reachable cfg evMax env s) : SessClean Clean s :=
  Dnp3.Proofs.C03.reachable_sessClean K hr

/-- the three places where a response is written from the database OUTSIDE a series — a request handled
    from idle, the unsolicited check, the deferred READ — are reached with a clean database whenever the
    pass is (`runPass_post` … in `Dnp3.Proofs.OutstationC03B`), and leave it clean unless they open a series -/
theorem idle_request_clean {Clean : Db → Prop} (K : CleanContract Clean) {a a' : Acc} {f : Frag} {ctrl : AppCtrl}
    {func : Nat} {objs : Except Nat (List ObjHdr)} {raw : List Nat} (hc : Clean a.1.db)
    (hh : handleRequestFromIdle a f ctrl func objs raw = some (a', none)) : Clean a'.1.db :=
  Dnp3.Proofs.C03.idle_request_clean K hc hh

theorem checkUnsolicited_clean {Clean : Db → Prop} (K : CleanContract Clean) {a a' : Acc} {n : NextIdle}
    (hc : Clean a.1.db) (hh : checkUnsolicited a = some (.inr (a', n))) : Clean a'.1.db :=
  Dnp3.Proofs.C03.checkUnsolicited_clean K hc hh

theorem handleDeferredRead_clean {Clean : Db → Prop} (K : CleanContract Clean) {a a' : Acc} {n : NextIdle}
    (hc : Clean a.1.db) (hh : handleDeferredRead a n = some (.inr a')) : Clean a'.1.db :=
  Dnp3.Proofs.C03.handleDeferredRead_clean K hc hh

/-- the contract holds of the real database model with `Clean` = "no event record is `Written`" … -/
theorem noWritten_contract : CleanContract NoWritten := Dnp3.Proofs.C03.noWritten_contract

/-- … hence, closed over the whole model (session + database): in every reachable state outside a
    response series no event record is `Written` — nothing an unconfirmed response carried can be
    released by a later confirm (D4, D19), and the class bits count every buffered event -/
theorem reachable_no_written {cfg : OCfg} {evMax : Nat} {env : OEnv} {s : OState}
    (hr : Outstation.Reachable cfg evMax env s) (ho : OutsideSeries s.mode) : NoWritten s.db :=
  Dnp3.Proofs.C03.reachable_no_written hr ho

end Session

end Dnp3.Props.C03
