import Dnp3.Props.DbComponent
/-!
# C03 — No event is lost, invented, or released before a confirmed response carried it

Database-component theorems (`Dnp3.Model.Database`, proofs in `Dnp3.Proofs.Database`) for EVERY
database state / operation / operation sequence, restated verbatim from `Dnp3.Props.DbComponent`
(namespace `Dnp3.Props.Db`), which also carries the satisfiability `example`s:

* events are kept oldest first with unique increasing ids (`ordered_*`), counters are exact
  (`total_exact_invariant`, `counters_exact` for every operation sequence, `counters_exact_preserved`
  per operation; the former D3 witness: `counters_exact_former_witness`), the checked counter
  decrements of an overflow cannot underflow (`discard_decrements_no_underflow`);
* an event leaves the buffer only by `clearWritten` (exactly the `Written` records, oldest first,
  each id once: `clear_releases_*`) or by an overflow that is reported and discards the oldest record
  of the type (`kept`, `overflow_reported_discards_oldest`); `reset` (timeout, new request) releases
  nothing and returns every record to the pool (`reset_releases_nothing`);
* responses mark exactly a prefix, in buffer order, of the selected records as written and carry
  exactly those (`write_marks_prefix`, `unsol_marks_prefix`), selection never touches anything but
  `Unselected → Selected` (`select_only_selects`).

Which session paths call `clearWritten` / `reset` is the session model's part
(`Dnp3.Model.Outstation`), tied by the `outstationdb` correspondence engine and the event-ledger
monitors; the session-level defects D4 (DISABLE_UNSOLICITED during an unsolicited confirm wait) and
D19 (disconnect during a series) are findings on the unchanged tree.
-/
namespace Dnp3.Props.C03
open Dnp3 Dnp3.DbM Dnp3.DbProofs Dnp3.Props.Db

/-- events are kept oldest first with strictly increasing ids below `next`: an invariant of
    every operation sequence from a fresh database -/
theorem ordered_invariant (evMax : Nat) (sel : Option Nat) (ops : List DbOp) :
    Ordered (run (Db.new evMax sel) ops) :=
  @Dnp3.Props.Db.ordered_invariant evMax sel ops

/-- … and it is preserved by every single operation from any state that has it -/
theorem ordered_preserved (db : Db) (op : DbOp) (h : Ordered db) : Ordered (step db op) :=
  @Dnp3.Props.Db.ordered_preserved db op h

/-- `total` (per class and per type) equals the number of records of that class / type: an
    invariant of every operation sequence, overflow included -/
theorem total_exact_invariant (evMax : Nat) (sel : Option Nat) (ops : List DbOp) :
    TotalExact (run (Db.new evMax sel) ops) :=
  @Dnp3.Props.Db.total_exact_invariant evMax sel ops

/-- `counters_exact`: `total` AND `written` counters equal the per-class / per-type counts of
    records / of `Written` records: an invariant of every operation sequence from a fresh database,
    the overflow of a `Written` record out of the buffer included (false before the repair of D3:
    `insert` left `written` too high) -/
theorem counters_exact (evMax : Nat) (sel : Option Nat) (ops : List DbOp) :
    CountersExact (run (Db.new evMax sel) ops) :=
  @Dnp3.Props.Db.counters_exact evMax sel ops

/-- … and it is preserved by every single operation from any state that has it -/
theorem counters_exact_preserved (db : Db) (op : DbOp) (h : CountersExact db) : CountersExact (step db op) :=
  @Dnp3.Props.Db.counters_exact_preserved db op h

/-- one step: every operation preserves `WrittenExact` (no side condition: an update that discards
    a `Written` record takes it out of `written` too) -/
theorem written_exact_preserved (db : Db) (op : DbOp) (h : WrittenExact db) : WrittenExact (step db op) :=
  @Dnp3.Props.Db.written_exact_preserved db op h

/-- the former D3 witness history now leaves exact counters: the discarded `Written` class-1 record
    is gone from `written` as well (`written.class1 = total.class1 = 0`; before the repair
    `written.class1 = 1`), `unwritten_classes` does not panic and reports class 2 only -/
theorem counters_exact_former_witness :
    CountersExact (run (Db.new 1 none) d3Witness) ∧
    (run (Db.new 1 none) d3Witness).unwrittenClasses = some (false, true, false) ∧
    (run (Db.new 1 none) d3Witness).written.c1 = 0 ∧ (run (Db.new 1 none) d3Witness).total.c1 = 0 :=
  @Dnp3.Props.Db.counters_exact_former_witness

/-- the checked decrements of `insert` (`Count::decrement`, `-= 1`) never underflow: with exact
    counters the record an overflow of type `t` discards is counted in `total` (type, then class) and,
    when it is `Written`, in `written` (type, then class) -/
theorem discard_decrements_no_underflow (db : Db) (t : PtType) (d : EvRec) (rest : List EvRec)
    (h : CountersExact db) (hrem : removeFirstTy t db.events = some (d, rest)) :
    1 ≤ db.total.ty t ∧ (d.cls = 1 ∨ d.cls = 2 ∨ d.cls = 3 → 1 ≤ (db.total.decTy t).cls d.cls) ∧
    (d.st = .written →
      1 ≤ db.written.ty t ∧ (d.cls = 1 ∨ d.cls = 2 ∨ d.cls = 3 → 1 ≤ (db.written.decTy t).cls d.cls)) :=
  @Dnp3.Props.Db.discard_decrements_no_underflow db t d rest h hrem

/-- `clear` and `reset` establish `WrittenExact` from ANY state -/
theorem written_exact_restored (db : Db) : WrittenExact db.clearWritten.1 ∧ WrittenExact db.reset :=
  @Dnp3.Props.Db.written_exact_restored db

/-- `clearWritten` (a confirmed response) removes exactly the `Written` records, reports exactly
    their ids in buffer order (oldest first), zeroes `written`, and returns the remaining
    per-class totals -/
theorem clear_releases_exactly_written (db : Db) :
    db.clearWritten.1.events = db.events.filter (fun r => !isWritten r) ∧
    db.clearWritten.2.1 = (db.events.filter isWritten).map (·.id) ∧
    db.clearWritten.1.written = {} ∧
    db.clearWritten.2.2 = (db.clearWritten.1.total.c1, db.clearWritten.1.total.c2, db.clearWritten.1.total.c3) :=
  @Dnp3.Props.Db.clear_releases_exactly_written db

/-- released ids are strictly increasing (so no id is released twice by one clear), and after the
    clear no record with a released id is left -/
theorem clear_releases_once (db : Db) (h : Ordered db) :
    db.clearWritten.2.1.Pairwise (· < ·) ∧
    ∀ r ∈ db.clearWritten.1.events, r.id ∉ db.clearWritten.2.1 :=
  @Dnp3.Props.Db.clear_releases_once db h

/-- `reset` releases nothing: same records (ids, indices, classes, types, values) in the same
    order, every one `Unselected`, `written` zeroed, static selection dropped -/
theorem reset_releases_nothing (db : Db) :
    db.reset.events.map core = db.events.map core ∧
    (∀ r ∈ db.reset.events, r.st = .unselected) ∧ db.reset.written = {} ∧ db.reset.queue = [] :=
  @Dnp3.Props.Db.reset_releases_nothing db

/-- `select` (any READ header) only ever moves records `Unselected` → `Selected`; counters,
    ids, overflow flag untouched -/
theorem select_only_selects (db : Db) (h : ReadHdr) :
    Pointwise SelStep db.events (db.select h).1.events ∧
    (db.select h).1.total = db.total ∧ (db.select h).1.written = db.written ∧
    (db.select h).1.next = db.next ∧ (db.select h).1.overflown = db.overflown :=
  @Dnp3.Props.Db.select_only_selects db h

/-- `write_response_headers`: a prefix (in buffer order) of the `Selected` records becomes
    `Written` — exactly the records whose encodings open the response; `has_events` says
    whether that prefix is non-empty; if it is not all of them the response is incomplete and
    carries no static data -/
theorem write_marks_prefix (db : Db) (cap : Nat) :
    ∃ n, let w := (db.events.filter isSelected).take n
      (db.writeResponse cap).1.events = markFirst n db.events ∧
      n = w.length ∧
      (∃ st, (db.writeResponse cap).2.1 = encodeEvents none w ++ st ∧
        (w ≠ db.events.filter isSelected → st = [])) ∧
      (db.writeResponse cap).2.2.1 = !w.isEmpty ∧
      (w ≠ db.events.filter isSelected → (db.writeResponse cap).2.2.2 = false) :=
  @Dnp3.Props.Db.write_marks_prefix db cap

/-- `write_unsolicited` = reset, select the classes, write events only: its octets are exactly
    the encodings of the prefix it marked `Written` -/
theorem unsol_marks_prefix (db : Db) (c1 c2 c3 : Bool) (cap : Nat) :
    ∃ dbs n, EbSel db.reset dbs ∧
      (db.writeUnsolicited c1 c2 c3 cap).1.events = markFirst n dbs.events ∧
      (db.writeUnsolicited c1 c2 c3 cap).2.1 = encodeEvents none ((dbs.events.filter isSelected).take n) ∧
      (db.writeUnsolicited c1 c2 c3 cap).2.2 = ((dbs.events.filter isSelected).take n).length :=
  @Dnp3.Props.Db.unsol_marks_prefix db c1 c2 c3 cap

/-- `kept`: whatever the operation, every record stays in the buffer with its id, index,
    class, type, value/flags/time and default variation — unless the operation is an update that
    REPORTS it as its overflow discard, or a `clear` that reports its id as released -/
theorem kept (db : Db) (op : DbOp) (r : EvRec) (hr : r ∈ db.events) :
    SurvivesIn r (step db op).events ∨ Lost db op r :=
  @Dnp3.Props.Db.kept db op r hr

/-- an overflow is reported, raises the overflow flag, and discards the OLDEST record of the type -/
theorem overflow_reported_discards_oldest (db : Db) (idx cls : Nat) (t : PtType) (m : Meas) (dv c dId : Nat)
    (ho : Ordered db) (h : (db.insert idx cls t m dv).2 = .overflow c dId) :
    ∃ d ∈ db.events, d.id = dId ∧ d.ty = t ∧ (db.insert idx cls t m dv).1.overflown = true ∧
      ∀ r ∈ db.events, r.ty = t → r ≠ d → d.id < r.id :=
  @Dnp3.Props.Db.overflow_reported_discards_oldest db idx cls t m dv c dId ho h


end Dnp3.Props.C03
