import Dnp3.Model.MasterSession
import Dnp3.Proofs.Master
/-!
# C19 — Master scheduling: requests first and in order, polls on period, one at a time

`AssociationMap::next_task` (`nextTask` = `phase1` then `phase2`), `Association::priority_task`,
`PollMap::next`, `next_link_status_task`, and the main loop `resolve`.
-/
namespace Dnp3.Props.C19
open Dnp3 Dnp3.Master

def notTimeSync (t : Task) : Prop := ∀ uid st, t ≠ .nonRead (.timeSync uid st)

/-- requests of one association run in submission order: `priority_task` hands out the head of
    the queue (a time synchronisation that cannot start is answered at once and skipped) -/
theorem user_fifo (a : Acc) (addr : Nat) (x : Assoc) (t : Task) (rest : List Task) (fuel : Nat)
    (hx : a.1.getAssoc addr = some x) (hq : x.queue = t :: rest) (ht : notTimeSync t) :
    priorityTask (fuel + 1) a addr = (modAssoc a addr fun y => { y with queue := rest }, some t) := by
  unfold priorityTask
  simp only [hx, hq]
  have : ∀ b : Acc, startTask b addr t = (b, some t) := by
    intro b
    unfold startTask
    cases t with
    | read r => rfl
    | linkStatus u => rfl
    | nonRead n =>
      cases n with
      | timeSync uid st => exact absurd rfl (ht uid st)
      | auto k c => rfl
      | command u s o => rfl
      | restart u c => rfl
      | deadband u o => rfl
  rw [this]

/-- `user_fifo_first`: user requests are served ahead of every automatic task, poll and
    keep-alive — `nextTask` consults `phase2` only when no association has a startable request -/
theorem user_fifo_first (a : Acc) (a' : Acc) (x : Nat × Task) (h : phase1 a.1.ring a = (a', some x)) :
    nextTask a = (a', .now x) := by
  unfold nextTask
  rw [h]

/-- the association at the head of the turn order with a startable request is the one served,
    and it moves to the back of the order -/
theorem round_robin_head (a : Acc) (addr : Nat) (rest : List Nat) (x : Assoc) (t : Task) (q : List Task)
    (hx : a.1.getAssoc addr = some x) (hq : x.queue = t :: q) (ht : notTimeSync t) :
    phase1 (addr :: rest) a =
      (rotate (modAssoc a addr fun y => { y with queue := q }) addr, some (addr, t)) := by
  unfold phase1
  simp only [hx]
  rw [hq, List.length_cons, user_fifo a addr x t q _ hx hq ht]

/-- `round_robin`: the association just served goes to the back of the turn order -/
theorem round_robin (a : Acc) (addr : Nat) : (rotate a addr).1.ring = a.1.ring.erase addr ++ [addr] := rfl

theorem round_robin_last (a : Acc) (addr : Nat) : (rotate a addr).1.ring.getLast? = some addr := by
  simp [round_robin]

/-- associations without a request are skipped, keeping their place -/
theorem round_robin_skip (a : Acc) (addr : Nat) (rest : List Nat) (x : Assoc)
    (hx : a.1.getAssoc addr = some x) (hq : x.queue = []) : phase1 (addr :: rest) a = phase1 rest a := by
  conv => lhs; unfold phase1
  simp only [hx, hq, List.length_nil]
  unfold priorityTask
  simp [hx, hq]

-- ------------------------------------------------------------------------------------------
-- polls
-- ------------------------------------------------------------------------------------------

/-- `poll_period` (1): only a poll whose `next` instant has been reached is selected -/
theorem poll_selected_is_due (polls : List Poll) (now : Nat) (p : Poll) (h : PollMap.next polls now = .now p) :
    p ∈ polls ∧ p.next ≤ now := by
  unfold PollMap.next at h
  cases hf : polls.find? (fun p => decide (p.next ≤ now)) with
  | none =>
    rw [hf] at h
    simp only at h
    split at h <;> cases h
  | some q =>
    rw [hf] at h
    simp only [Next.now.injEq] at h
    subst h
    exact ⟨List.mem_of_find?_eq_some hf, by simpa using List.find?_some hf⟩

/-- `poll_period` (2): completion (success or failure) re-arms the poll one period later -/
theorem poll_rearmed (a : Assoc) (id now : Nat) (p : Poll) (h : p ∈ (a.completePoll id now).polls) (hid : p.id = id) :
    ∃ q ∈ a.polls, q.id = id ∧ p.next = now + q.period ∧ p.period = q.period := by
  unfold Assoc.completePoll at h
  simp only [List.mem_map] at h
  obtain ⟨q, hq, rfl⟩ := h
  by_cases hqi : q.id = id
  · exact ⟨q, hq, hqi, by simp [hqi], by simp [hqi]⟩
  · simp [hqi] at hid

/-- hence a completed poll is not selected again before its period has elapsed -/
theorem poll_period (a : Assoc) (id t now : Nat) (p : Poll)
    (h : PollMap.next (a.completePoll id t).polls now = .now p) (hid : p.id = id) :
    ∃ q ∈ a.polls, q.id = id ∧ t + q.period ≤ now := by
  obtain ⟨hm, hdue⟩ := poll_selected_is_due _ _ _ h
  obtain ⟨q, hq, hqi, hn, _⟩ := poll_rearmed a id t p hm hid
  exact ⟨q, hq, hqi, by omega⟩

/-- a ready poll is never passed over: `PollMap.next` answers `now` whenever some poll is due -/
theorem poll_not_starved (polls : List Poll) (now : Nat) (p : Poll) (hp : p ∈ polls) (hd : p.next ≤ now) :
    ∃ q, PollMap.next polls now = .now q := by
  unfold PollMap.next
  cases hf : polls.find? (fun p => decide (p.next ≤ now)) with
  | some q => exact ⟨q, rfl⟩
  | none =>
    have := List.find?_eq_none.1 hf p hp
    simp at this
    omega

/-- `demand` makes the poll ready at once (the list update is the one `processMessage` performs) -/
theorem demanded_poll_ready (polls : List Poll) (id now : Nat) (p : Poll) (hp : p ∈ polls) (hid : p.id = id) :
    ∃ q, PollMap.next (polls.map fun p => if p.id = id then { p with next := now } else p) now = .now q := by
  apply poll_not_starved _ now { p with next := now }
  · simp only [List.mem_map]
    exact ⟨p, hp, by simp [hid]⟩
  · exact Nat.le_refl _

-- ------------------------------------------------------------------------------------------
-- keep-alive
-- ------------------------------------------------------------------------------------------

/-- `keepalive_after_silence`: a link status request is selected only when the configured time
    has passed since the last recorded link activity -/
theorem keepalive_after_silence (a : Assoc) (now : Nat) (t : Task) (h : a.nextLinkStatus? now = .now t) :
    ∃ dl, a.nextLinkStatus = some dl ∧ dl ≤ now ∧ t = .linkStatus none := by
  unfold Assoc.nextLinkStatus? at h
  cases hd : a.nextLinkStatus with
  | none => simp [hd] at h
  | some dl =>
    simp only [hd] at h
    split at h
    · rename_i hge
      injection h with h
      exact ⟨dl, rfl, hge, h.symm⟩
    · cases h

theorem keepalive_deadline (a : Assoc) (now : Nat) :
    (a.onLinkActivity now).nextLinkStatus = a.cfg.ka.map (now + ·) := rfl

/-
`keepalive_credit`: the silence that `keepalive_after_silence` measures is the silence of THAT
association: a received fragment (or link status frame) re-arms the keep-alive deadline of the
association it comes from, and of no other — in every session mode.  (Finding D25, repaired: while
a non-READ request was outstanding the unchanged code credited every received fragment to the
request's destination; regression `harness/corpus/C19/master_D25.ops`.)  `kaView s` lists
(address, keep-alive deadline) of all associations.
-/

/-- crediting `src` at time `now` sets the deadline of `src`'s association to `now + keep_alive`
    and leaves every other deadline alone -/
theorem keepalive_credit_view (s : MState) (src : Nat) :
    kaView (notifyLinkActivity (s, []) src).1 =
      s.assocs.map fun x => (x.addr, if x.addr = src then x.cfg.ka.map (s.now + ·) else x.nextLinkStatus) :=
  Proofs.Master.notify_kaView s src

/-- whatever else a parsed fragment causes (unsolicited handling, ending or continuing the task in
    flight), the deadlines afterwards are those of "credit the source" — in EVERY online mode,
    including the wait of a non-READ task -/
theorem keepalive_credit_to_source (s : MState) (src : Nat) (frag : List Nat) (r : Resp)
    (hp : parseResponse frag = some r) (hon : match s.mode with | .offline | .exited => False | _ => True) :
    kaView (onFragment (s, []) src frag).acc.1 =
      s.assocs.map fun x => (x.addr, if x.addr = src then x.cfg.ka.map (s.now + ·) else x.nextLinkStatus) := by
  rw [Proofs.Master.fragment_credits_source s src frag r hp hon, Proofs.Master.notify_kaView]

/-- the same through the whole step of the model (scheduler, next task, session end included) -/
theorem keepalive_credit_to_source_step (s : MState) (src dst : Nat) (frag : List Nat) (r : Resp)
    (hdst : dst = masterAddr) (hsrc : src < 0xFFF0) (hne : frag ≠ []) (hlen : frag.length ≤ 2048)
    (hp : parseResponse frag = some r) (hon : match s.mode with | .offline | .exited => False | _ => True) :
    kaView (Master.step s (.rx src dst frag)).1 =
      s.assocs.map fun x => (x.addr, if x.addr = src then x.cfg.ka.map (s.now + ·) else x.nextLinkStatus) := by
  rw [Proofs.Master.step_rx_credits_source s src dst frag r hdst hsrc hne hlen hp hon, Proofs.Master.notify_kaView]

/-- nothing is credited for a fragment that does not parse, or when no session runs -/
theorem keepalive_no_credit (s : MState) (src : Nat) (frag : List Nat)
    (h : parseResponse frag = none ∨ (match s.mode with | .offline | .exited => True | _ => False)) :
    kaView (onFragment (s, []) src frag).acc.1 = kaView s := by
  rcases h with h | h
  · exact Proofs.Master.fragment_unparsed_no_credit s src frag h
  · exact Proofs.Master.fragment_offline_no_credit s src frag h

/-- a link status frame from `src` credits `src` -/
theorem keepalive_credit_linkmsg (s : MState) (src : Nat)
    (hon : match s.mode with | .offline | .exited => False | _ => True) :
    kaView (onLinkMsg (s, []) src).acc.1 =
      s.assocs.map fun x => (x.addr, if x.addr = src then x.cfg.ka.map (s.now + ·) else x.nextLinkStatus) := by
  rw [Proofs.Master.linkmsg_credits_source s src hon, Proofs.Master.notify_kaView]

/-- regression for D25 (repaired): cold restart to 1024 outstanding (non-READ wait), at t = 2000 an
    unsolicited null response arrives from 1025 (keep-alive 3000): 1025's deadline moves to 5000,
    1024 (no keep-alive) is untouched.  Before the repair 1025 kept its deadline 3000 and got a
    keep-alive although it had just been heard. -/
def d25State : MState :=
  { now := 2000,
    assocs := [{ addr := 1024, cfg := { rto := 5000, dis := 0, int := 0, en := 0 }, seq := 1 },
               { addr := 1025, cfg := { rto := 1000, dis := 0, int := 0, en := 0, ka := some 3000 }, nextLinkStatus := some 3000 }],
    ring := [1025, 1024], mode := .waitNonRead 1024 (.restart 1 true) 0 13 7000, live := 1 }

theorem keepalive_credit_d25_regression :
    kaView (Master.step d25State (.rx 1025 1 [0xF0, 0x82, 0x00, 0x00])).1 = [(1024, none), (1025, some 5000)] := by decide

-- ------------------------------------------------------------------------------------------
-- the scheduler cannot spin
-- ------------------------------------------------------------------------------------------

theorem createNext_future {α : Type} (st : AutoState) (now t : Nat) (x : α) (h : st.createNext now x = .notBefore t) : now < t := by
  unfold AutoState.createNext at h
  cases st with
  | idle => cases h
  | pending => cases h
  | failed l nb =>
    simp only at h
    split at h
    · cases h
    · injection h with h; omega

theorem auto_next_future (ts : TaskStates) (cfg : ACfg) (ev now t : Nat) (h : ts.next cfg ev now = .notBefore t) : now < t := by
  unfold TaskStates.next at h
  split at h
  · exact createNext_future _ _ _ _ h
  split at h
  · exact createNext_future _ _ _ _ h
  split at h
  · exact createNext_future _ _ _ _ h
  split at h
  · exact createNext_future _ _ _ _ h
  split at h
  · exact createNext_future _ _ _ _ h
  simp only at h
  split at h
  · exact createNext_future _ _ _ _ h
  · cases h

theorem foldl_earliest_ge (polls : List Poll) (now : Nat) (acc : Option Nat) (t : Nat)
    (hacc : ∀ x, acc = some x → now < x) (hall : ∀ p ∈ polls, now < p.next)
    (h : polls.foldl (fun e p => earliest e p.next) acc = some t) : now < t := by
  induction polls generalizing acc with
  | nil => exact hacc t h
  | cons p ps ih =>
    simp only [List.foldl] at h
    apply ih (earliest acc p.next) _ (fun q hq => hall q (List.mem_cons_of_mem _ hq)) h
    intro x hx
    have hp := hall p List.mem_cons_self
    unfold earliest at hx
    cases acc with
    | none => injection hx with hx; omega
    | some y =>
      injection hx with hx
      have := hacc y rfl
      omega

theorem poll_next_future (polls : List Poll) (now t : Nat) (h : PollMap.next polls now = .notBefore t) : now < t := by
  unfold PollMap.next at h
  cases hf : polls.find? (fun p => decide (p.next ≤ now)) with
  | some q => rw [hf] at h; cases h
  | none =>
    rw [hf] at h
    simp only at h
    have hall : ∀ p ∈ polls, now < p.next := by
      intro p hp
      have := List.find?_eq_none.1 hf p hp
      simp at this
      omega
    cases hfold : polls.foldl (fun e p => earliest e p.next) none with
    | none => rw [hfold] at h; cases h
    | some x =>
      rw [hfold] at h
      injection h with h
      subst h
      exact foldl_earliest_ge polls now none x (by intro x hx; cases hx) hall hfold

theorem link_next_future (a : Assoc) (now t : Nat) (h : a.nextLinkStatus? now = .notBefore t) : now < t := by
  unfold Assoc.nextLinkStatus? at h
  cases hd : a.nextLinkStatus with
  | none => simp [hd] at h
  | some dl =>
    simp only [hd] at h
    split at h
    · cases h
    · injection h with h; omega

/-- every deadline an association reports is strictly in the future -/
theorem assoc_next_future (a : Assoc) (now t : Nat) (h : a.getNextTask now = .notBefore t) : now < t := by
  unfold Assoc.getNextTask at h
  cases h1 : a.auto.next a.cfg a.evAvail now with
  | now c => simp [h1] at h
  | notBefore t' =>
    simp only [h1] at h
    injection h with h
    subst h
    exact auto_next_future _ _ _ _ _ h1
  | none =>
    simp only [h1] at h
    cases h2 : PollMap.next a.polls now with
    | now p => simp [h2] at h
    | none => simp only [h2] at h; exact link_next_future a now t h
    | notBefore tp =>
      simp only [h2] at h
      have hp := poll_next_future _ _ _ h2
      cases h3 : a.nextLinkStatus? now with
      | none => simp only [h3] at h; injection h with h; omega
      | now x => simp [h3] at h
      | notBefore tl =>
        simp only [h3] at h
        injection h with h
        have hl := link_next_future a now tl h3
        omega

/-- state changes made while looking for a task never move the clock -/
theorem modAssoc_now (a : Acc) (addr : Nat) (f : Assoc → Assoc) : (modAssoc a addr f).1.now = a.1.now := rfl

theorem complete_now (a : Acc) (uid : Nat) (o : Outcome) : (complete a uid o).1.now = a.1.now := rfl

theorem tsReportError_now (a : Acc) (dest : Nat) (uid : Option Nat) (o : Outcome) :
    (tsReportError a dest uid o).1.now = a.1.now := by
  unfold tsReportError
  split <;> rfl

theorem startTask_now (a : Acc) (dest : Nat) (t : Task) : (startTask a dest t).1.1.now = a.1.now := by
  unfold startTask
  split
  · split
    · rfl
    · exact tsReportError_now _ _ _ _
  · rfl

theorem assocNextTask_future (fuel : Nat) (a : Acc) (addr t : Nat) (a' : Acc)
    (h : assocNextTask fuel a addr = (a', .notBefore t)) : a.1.now < t ∧ a'.1.now = a.1.now := by
  induction fuel generalizing a with
  | zero => simp [assocNextTask] at h
  | succ n ih =>
    unfold assocNextTask at h
    cases hx : a.1.getAssoc addr with
    | none => simp [hx] at h
    | some x =>
      simp only [hx] at h
      cases hn : x.getNextTask a.1.now with
      | none => simp [hn] at h
      | notBefore t' =>
        simp only [hn] at h
        injection h with h1 h2
        injection h2 with h2
        subst h1 h2
        exact ⟨assoc_next_future x _ _ hn, rfl⟩
      | now tk =>
        simp only [hn] at h
        cases hs : startTask a addr tk with
        | mk b ot =>
          cases ot with
          | some tk' => simp [hs] at h
          | none =>
            simp only [hs] at h
            have hb : b.1.now = a.1.now := by
              have := startTask_now a addr tk
              rw [hs] at this
              exact this
            have := ih b h
            rw [hb] at this
            exact this

theorem rotate_now (a : Acc) (addr : Nat) : (rotate a addr).1.now = a.1.now := rfl

theorem assocNextTask_now (fuel : Nat) (a : Acc) (addr : Nat) : (assocNextTask fuel a addr).1.1.now = a.1.now := by
  induction fuel generalizing a with
  | zero => rfl
  | succ n ih =>
    unfold assocNextTask
    cases hx : a.1.getAssoc addr with
    | none => rfl
    | some x =>
      simp only
      cases hn : x.getNextTask a.1.now with
      | none => rfl
      | notBefore t' => rfl
      | now tk =>
        simp only
        have hb := startTask_now a addr tk
        cases hs : startTask a addr tk with
        | mk b ot =>
          rw [hs] at hb
          cases ot with
          | some tk' => exact hb
          | none =>
            simp only
            rw [ih b]
            exact hb

theorem priorityTask_now (fuel : Nat) (a : Acc) (addr : Nat) : (priorityTask fuel a addr).1.1.now = a.1.now := by
  induction fuel generalizing a with
  | zero => rfl
  | succ n ih =>
    unfold priorityTask
    cases hx : a.1.getAssoc addr with
    | none => rfl
    | some x =>
      simp only
      cases hq : x.queue with
      | nil => rfl
      | cons t rest =>
        simp only
        have hb := startTask_now (modAssoc a addr fun y => { y with queue := rest }) addr t
        cases hs : startTask (modAssoc a addr fun y => { y with queue := rest }) addr t with
        | mk b ot =>
          rw [hs] at hb
          cases ot with
          | some tk' => exact hb
          | none =>
            simp only
            rw [ih b]
            exact hb

theorem phase1_now (ring : List Nat) (a : Acc) : (phase1 ring a).1.1.now = a.1.now := by
  induction ring generalizing a with
  | nil => rfl
  | cons addr rest ih =>
    unfold phase1
    cases hx : a.1.getAssoc addr with
    | none => exact ih a
    | some x =>
      simp only
      have hp := priorityTask_now (x.queue.length + 1) a addr
      cases hs : priorityTask (x.queue.length + 1) a addr with
      | mk b ot =>
        rw [hs] at hp
        cases ot with
        | some t => exact hp
        | none =>
          simp only
          rw [ih b]
          exact hp

theorem phase2_future (ring : List Nat) (e : Option Nat) (a a' : Acc) (t : Nat)
    (he : ∀ x, e = some x → a.1.now < x) (h : phase2 ring e a = (a', .notBefore t)) : a'.1.now < t := by
  induction ring generalizing e a with
  | nil =>
    unfold phase2 at h
    cases e with
    | none => simp at h
    | some x =>
      simp only at h
      injection h with h1 h2
      injection h2 with h2
      subst h1 h2
      exact he x rfl
  | cons addr rest ih =>
    unfold phase2 at h
    have hnow := assocNextTask_now 8 a addr
    cases hn : assocNextTask 8 a addr with
    | mk b nx =>
      rw [hn] at hnow
      simp only at hnow
      cases nx with
      | now tk => simp [hn] at h
      | none =>
        simp only [hn] at h
        exact ih e b (by intro x hx; rw [hnow]; exact he x hx) h
      | notBefore t' =>
        simp only [hn] at h
        have ht' := (assocNextTask_future 8 a addr t' b hn).1
        apply ih (earliest e t') b _ h
        intro x hx
        rw [hnow]
        unfold earliest at hx
        cases e with
        | none => injection hx with hx; omega
        | some y =>
          injection hx with hx
          have := he y rfl
          omega

/-- `idle_sleeps`: whenever the scheduler decides to wait, the deadline it hands to the timer is
    strictly in the future — so the `t ≤ now` re-loop of `resolve` (a spinning scheduler, the
    class of bug fixed in 1.5.0) is unreachable: either there is work now, or the task sleeps
    until a later instant, or it waits for an event -/
theorem idle_sleeps (a a' : Acc) (t : Nat) (h : nextTask a = (a', .notBefore t)) : a'.1.now < t := by
  unfold nextTask at h
  have hp := phase1_now a.1.ring a
  cases h1 : phase1 a.1.ring a with
  | mk b ox =>
    rw [h1] at hp
    cases ox with
    | some x => simp [h1] at h
    | none =>
      simp only [h1] at h
      exact phase2_future _ none b a' t (by intro x hx; cases hx) h

/-- consequence for the main loop: from the top of `run` the model either starts a task or
    blocks in `idle`; with a wake-up time that lies ahead -/
theorem loop_blocks_in_future (fuel : Nat) (a a' : Acc) (t : Nat) (h : nextTask a = (a', .notBefore t)) :
    resolve (fuel + 1) (.loop a) = setMode a' (.idle (some t)) := by
  have := idle_sleeps a a' t h
  unfold resolve
  simp only [h]
  have hn : ¬ t ≤ a'.1.now := by omega
  simp [hn]

/-- `one_outstanding`: a request goes out only from the top of the loop, i.e. when no task is in
    flight: in a wait mode `resolve` of a `waiting` step returns immediately without consulting
    the scheduler -/
theorem one_outstanding (fuel : Nat) (a : Acc) : resolve (fuel + 1) (.waiting a) = a := by
  unfold resolve
  rfl

def pollOnly : MState :=
  { assocs := [{ addr := 1024, cfg := { dis := 0, int := 0, en := 0 }, polls := [⟨0, 1, 5000, 5000⟩], pollId := 1 }],
    ring := [1024], mode := .idle none }

example : (nextTask (pollOnly, [])).2 = .notBefore 5000 := by decide

/-
SUSPECTED DEFECT D26 (not replayed by `./check`: the real task never returns from the call, the
harness process has to be killed): `Association::next_task` retries `task.start()` in a
synchronous loop.  With automatic time synchronisation configured, a retry strategy whose
minimum delay is zero, NEED_TIME observed and no system time available
(`get_current_time() = None`) every iteration fails, re-arms the task for `now + 0` and tries
again: the loop never ends and never yields, the channel task is wedged for all associations.
In the model the loop is `assocNextTask`, which runs out of fuel.  Witness: findings/D26.ops.
-/
def d26State : MState :=
  { assocs := [{ addr := 1024, cfg := { dis := 0, int := 0, en := 0, ts := some .lan, rmin := 0, rmax := 0 },
                 auto := { disable := .idle, integrity := .idle, enable := .idle, timeSync := .pending } }],
    ring := [1024], mode := .idle none }

theorem zero_delay_timesync_spins_counterexample :
    (assocNextTask 8 (d26State, []) 1024).1.2 = [.modelFuelExhausted] := by decide

/-- with a positive minimum delay the same situation ends after one attempt: the task goes into
    back-off and the scheduler reports its retry time -/
theorem positive_delay_timesync_backs_off :
    let s : MState := { d26State with assocs := d26State.assocs.map fun a => { a with cfg := { a.cfg with rmin := 300, rmax := 1000 } } }
    (assocNextTask 8 (s, []) 1024).2 = .notBefore 300 := by decide

end Dnp3.Props.C19
