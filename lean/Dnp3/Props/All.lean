import Dnp3.Props.C06
import Dnp3.Props.C07
import Dnp3.Props.C08
import Dnp3.Props.C10
