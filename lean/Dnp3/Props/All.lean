import Dnp3.Props.C06
