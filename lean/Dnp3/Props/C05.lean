import Dnp3.Model.OutstationTrace
import Dnp3.Proofs.OutstationC05
/-!
# C05 — A retransmitted request is answered from memory and never executed twice

Restated verbatim from `Dnp3.Proofs.OutstationC05` (`IsRepeat`, `isExec`, `rxAccept` live there).
Known finding kept as exact characterisation: D14 (the idle-path echo re-ORs the current IIN).
Defect D5 (echo of a READ repeated during the confirm wait of a later fragment spliced two fragments) is
repaired: the continuation fragment becomes the stored response (`continuation_is_stored`), so the full
C05.4 holds (`resend_is_stored_fragment`, `resend_is_awaited_fragment`).
-/
namespace Dnp3.Props.C05
open Dnp3 Dnp3.Proofs.C05 Dnp3.Proofs.C04

/-- a unicast fragment with the sequence number and the exact octets of the last processed request
    is classified as a repeat (for every function code but CONFIRM) and carries the stored response -/
theorem repeat_is_classified (s : OState) (f : Frag) (ctrl : AppCtrl) (func : Nat) (hs : List ObjHdr)
    (last : LastReq) (hl : s.lastReq = some last) (hseq : last.seq = ctrl.seq) (hfrag : last.frag = f.data)
    (hf : func ≠ 0) (hb : f.broadcast = none) :
    (func = 1 → ∃ r, classify s f ctrl func (.ok hs) = .repeatRead r hs ∧ r = last.response) ∧
    (func ≠ 1 → ∃ r, classify s f ctrl func (.ok hs) = .repeatNonRead r ∧ r = last.response) := by
  unfold classify
  simp [hf, hb, hl, hseq, hfrag]

/-- **C05.1 (step level)**: in EVERY state with no deferred read (idle, confirm waits, …), receiving
    again the last recorded non-READ request (same sequence number, identical bytes, unicast, objects
    well-formed) fires no control / write / freeze / time / restart callback. -/
theorem repeat_nonread_not_executed (env : OEnv) (s : OState) (src dst : Nat) (data : List Nat) (f : Frag)
    {ctrl : AppCtrl} {func : Nat} {objects : Except Nat (List ObjHdr)} {raw : List Nat} {last : LastReq}
    (hacc : rxAccept env s src dst data = some f)
    (hq : parseRequest data = .request ctrl func objects raw)
    (hd : s.deferred = none)
    (hr : IsRepeat s f ctrl func objects last) :
    ∀ o ∈ (Outstation.step env s (.rx src dst data)).2, isExec o = false :=
  @Dnp3.Proofs.C05.repeat_nonread_not_executed env s src dst data f ctrl func objects raw last hacc hq hd hr

/-- **C05.1 (unsolicited confirm wait)**: no executing callback -/
theorem repeat_nonread_not_executed_unsolwait {a : Acc} {f : Frag} {ctrl : AppCtrl} {func : Nat}
    {objects : Except Nat (List ObjHdr)} {raw : List Nat} {last : LastReq} (resp : Resp) (isNull : Bool)
    (hp : a.1.pending = some f) (hq : parseRequest f.data = .request ctrl func objects raw)
    (hm : a.1.cfg.anymaster = true ∨ f.src = a.1.cfg.master)
    (hr : IsRepeat a.1 f ctrl func objects last) :
    ∃ l, (accOf (unsolWaitOnFragment a resp isNull)).2 = a.2 ++ l ∧ ∀ o ∈ l, isExec o = false :=
  @Dnp3.Proofs.C05.repeat_nonread_not_executed_unsolwait a f ctrl func objects raw last resp isNull hp hq hm hr

/-- **C05.1 / C05.2 (unsolicited confirm wait)**: a retransmitted non-READ request arriving during the
    unsolicited confirm wait is not executed; the model blocks again having transmitted exactly
    `repeatSolicited` of the stored response (nothing if no response was stored), i.e. the stored header
    written over the current solicited buffer, cut to the stored size. -/
theorem repeat_nonread_unsolwait {a : Acc} {f : Frag} {ctrl : AppCtrl} {func : Nat}
    {objects : Except Nat (List ObjHdr)} {raw : List Nat} {last : LastReq} (resp : Resp) (isNull : Bool)
    (hp : a.1.pending = some f) (hq : parseRequest f.data = .request ctrl func objects raw)
    (hm : a.1.cfg.anymaster = true ∨ f.src = a.1.cfg.master)
    (hr : IsRepeat a.1 f ctrl func objects last) :
    unsolWaitOnFragment a resp isNull = .blocked
      (match last.response with
       | some r =>
         ({ (popped a).1 with deferred := none, solBuf := writeAt a.1.solBuf 0 (respHeader r) },
           a.2 ++ [.tx f.src ((writeAt a.1.solBuf 0 (respHeader r)).take (max 4 r.size))])
       | none => ({ (popped a).1 with deferred := none }, a.2)) :=
  @Dnp3.Proofs.C05.repeat_nonread_unsolwait a f ctrl func objects raw last resp isNull hp hq hm hr

/-- **C05.2 (`repeat_nonread_same_bytes_unsolwait`)**: PROVIDED the solicited buffer still is what the
    original transmission left (`solBuf = writeAt b0 0 (respHeader r)`, `b0` the buffer the response `r`
    was originally sent from by `repeatSolicited`/`writeSolicited`), the octets re-sent during the
    unsolicited confirm wait are byte-for-byte the octets sent originally. -/
theorem repeat_nonread_same_bytes_unsolwait {a : Acc} {f : Frag} {ctrl : AppCtrl} {func : Nat}
    {objects : Except Nat (List ObjHdr)} {raw : List Nat} {last : LastReq} (resp : Resp) (isNull : Bool) (r : Resp)
    (b0 : List Nat) (a00 : Acc) (dst0 : Nat)
    (hp : a.1.pending = some f) (hq : parseRequest f.data = .request ctrl func objects raw)
    (hm : a.1.cfg.anymaster = true ∨ f.src = a.1.cfg.master)
    (hr : IsRepeat a.1 f ctrl func objects last) (hresp : last.response = some r)
    (horig : a00.1.solBuf = b0)                                
    (hbuf : a.1.solBuf = (repeatSolicited a00 dst0 r).1.solBuf) : ∃ bytes, (repeatSolicited a00 dst0 r).2 = a00.2 ++ [.tx dst0 bytes] ∧
        (accOf (unsolWaitOnFragment a resp isNull)).2 = a.2 ++ [.tx f.src bytes] :=
  @Dnp3.Proofs.C05.repeat_nonread_same_bytes_unsolwait a f ctrl func objects raw last resp isNull r b0 a00 dst0 hp hq hm hr hresp horig hbuf

/-- **C05.2 (`repeat_nonread_idle_reors_iin`, finding D14)**: in the idle path the reply to a retransmitted
    non-READ request is NOT the stored response verbatim: `writeSolicited` ORs the CURRENT IIN (and possibly
    the CON bit after a confirm-required broadcast) into the stored header before re-sending it.
    Exact relation: new iin1 = stored iin1 ||| current iin1, new iin2 = stored iin2 ||| current iin2. -/
theorem repeat_nonread_idle_reors_iin {a : Acc} {f : Frag} {ctrl : AppCtrl} {func : Nat}
    {objects : Except Nat (List ObjHdr)} {raw : List Nat} {last : LastReq} {r : Resp}
    {s' : OState} {i1 i2 : Nat}
    (hr : IsRepeat a.1 f ctrl func objects last) (hresp : last.response = some r)
    (hg : getResponseIin (rebased a.1 f) = some (s', i1, i2)) :
    let r1 : Resp := { r with iin1 := r.iin1 ||| i1, iin2 := r.iin2 ||| i2 }
    let r2 : Resp := if s'.lastBroadcast = some 1 then { r1 with ctrl := { r1.ctrl with con := true } } else r1
    ∃ a' sr, handleRequestFromIdle a f ctrl func objects raw = some (a', sr) ∧
      a'.2 = a.2 ++ [.tx f.src ((writeAt a.1.solBuf 0 (respHeader r2)).take (max 4 r2.size))] ∧
      a'.1.lastReq = some ⟨ctrl.seq, f.data, some r2, sr⟩ :=
  @Dnp3.Proofs.C05.repeat_nonread_idle_reors_iin a f ctrl func objects raw last r s' i1 i2 hr hresp hg

theorem repeat_nonread_idle_reors_iin_counterexample :
    (Outstation.run {} (Outstation.start {} 10).1 d14Inputs).2.map txFrags =
      [[(1, [192, 129, 128, 0, 52, 2, 7, 1, 0, 0])], [], [(1, [192, 129, 129, 0, 52, 2, 7, 1, 0, 0])]] ∧
    (Outstation.run {} (Outstation.start {} 10).1 d14Inputs).2.map (fun l => (l.filter isExec).length) = [0, 0, 0] :=
  @Dnp3.Proofs.C05.repeat_nonread_idle_reors_iin_counterexample 

/-- **C05.3 (`unsol_retry_identical`)**: a retry after the unsolicited confirm timeout transmits the stored
    header over the current unsolicited buffer; PROVIDED `unsolBuf` still is what the original
    transmission (`repeatUnsolicited a00 resp`) left, the retry is byte-for-byte the original fragment. -/
theorem unsol_retry_identical (a : Acc) (resp : Resp) (isNull : Bool) (n : Option Nat) (a00 : Acc)
    (hretry : n ≠ some 0) (hd : a.1.deferred = none)
    (hbuf : a.1.unsolBuf = (repeatUnsolicited a00 resp).1.unsolBuf) :
    ∃ bytes a', (repeatUnsolicited a00 resp).2 = a00.2 ++ [.tx a00.1.cfg.master bytes] ∧
      unsolWaitTimeout a resp isNull n = .blocked a' ∧
      a'.2 = a.2 ++ [.cb (.unsolTimeout resp.ctrl.seq true), .tx a.1.cfg.master bytes] ∧
      a'.1.unsolBuf = a.1.unsolBuf :=
  @Dnp3.Proofs.C05.unsol_retry_identical a resp isNull n a00 hretry hd hbuf

/-- **C05.3 (invariant)**: a fragment handled during the unsolicited confirm wait never touches `unsolBuf`:
    either the series ends (`finishUnsol`, entered with `unsolBuf` unchanged) or the task blocks again (or
    dies) with `unsolBuf` — and, unless it died, the wait mode — unchanged. -/
theorem unsolWaitOnFragment_keeps_unsolBuf (a : Acc) (resp : Resp) (isNull : Bool) :
    (∃ a1 c, unsolWaitOnFragment a resp isNull = finishUnsol a1 isNull c ∧ a1.1.unsolBuf = a.1.unsolBuf) ∨
    KeepsUnsol a (accOf (unsolWaitOnFragment a resp isNull)) :=
  @Dnp3.Proofs.C05.unsolWaitOnFragment_keeps_unsolBuf a resp isNull

/-- **C05.4 (`resend_is_stored_fragment`)**: a READ repeated during the solicited confirm wait
    (same sequence number and bytes as the last recorded request) is answered by `repeatSolicited` of the
    STORED response header over the CURRENT solicited buffer.  PROVIDED the buffer still is what the
    transmission of that stored response left, the echo is byte-for-byte that fragment; the buffer and the
    stored request are left as they were, so the statement applies again to a further repeat.

    (Since the repair of defect D5 the stored response is the fragment awaiting confirmation for EVERY
    fragment of a series — `continuation_is_stored` — so the proviso holds throughout the confirm wait:
    `resend_is_awaited_fragment`.) -/
theorem resend_is_stored_fragment {a : Acc} {f : Frag} {ctrl : AppCtrl}
    {objects : Except Nat (List ObjHdr)} {raw : List Nat} {last : LastReq} {hs : List ObjHdr} {r : Resp}
    (series : Series) (deadline : Nat) (cont : SolCont) (a00 : Acc) (dst0 : Nat)
    (hp : a.1.pending = some f) (hq : parseRequest f.data = .request ctrl 1 objects raw)
    (hm : a.1.cfg.anymaster = true ∨ f.src = a.1.cfg.master)
    (hl : a.1.lastReq = some last) (hseq : last.seq = ctrl.seq) (hfrag : last.frag = f.data)
    (hu : f.broadcast = none) (hobj : objects = .ok hs) (hresp : last.response = some r)
    (hbuf : a.1.solBuf = (repeatSolicited a00 dst0 r).1.solBuf) :
    ∃ bytes a', (repeatSolicited a00 dst0 r).2 = a00.2 ++ [.tx dst0 bytes] ∧
      solWaitOnFragment a series deadline cont = .blocked a' ∧
      a'.2 = a.2 ++ [.tx f.src bytes] ∧ a'.1.solBuf = a.1.solBuf ∧ a'.1.lastReq = a.1.lastReq :=
  @Dnp3.Proofs.C05.resend_is_stored_fragment a f ctrl objects raw last hs r series deadline cont a00 dst0 hp hq hm hl hseq hfrag hu hobj hresp hbuf

/-- **C05.4 (`continuation_is_stored`, the D5 repair)**: a matching CONFIRM on a non-final fragment of a
    response series: either the IIN cannot be computed and the task dies (`writeSolicited … = none`, i.e.
    `unwrittenClasses = none`, defect D3 — nothing to do with D5), or the next fragment is transmitted exactly
    as `repeatSolicited a00 f.src r2` would for some accumulator `a00` and response record `r2`, and the
    session continues (resumes the idle pass if no confirmation is needed, else blocks in the confirm wait of
    that fragment) from an accumulator `a2` whose stored response is `r2` and whose solicited buffer is what
    that transmission left. -/
theorem continuation_is_stored {a : Acc} {f : Frag} {ctrl : AppCtrl} {objects : Except Nat (List ObjHdr)}
    {raw : List Nat} (series : Series) (dl : Nat) (cont : SolCont)
    (hp : a.1.pending = some f) (hq : parseRequest f.data = .request ctrl 0 objects raw)
    (hm : a.1.cfg.anymaster = true ∨ f.src = a.1.cfg.master)
    (hu : ctrl.uns = false) (hs : ctrl.seq = series.ecsn) (hfin : series.fin = false) :
    (∃ a1, solWaitOnFragment a series dl cont = die a1) ∨
    ∃ (a00 : Acc) (r2 : Resp) (bytes : List Nat) (a2 : Acc) (next : Option Series),
      (repeatSolicited a00 f.src r2).2 = a00.2 ++ [.tx f.src bytes] ∧
      a2.2 = a00.2 ++ [.tx f.src bytes] ∧
      a2.1.solBuf = (repeatSolicited a00 f.src r2).1.solBuf ∧
      a2.1.lastReq = a.1.lastReq.map (fun lr => { lr with response := some r2 }) ∧
      solWaitOnFragment a series dl cont =
        (match next with
         | none => resumeAfterSol a2 cont
         | some sr => .blocked ({ a2.1 with mode := .solWait sr (a2.1.now + a2.1.cfg.ctimeout) cont }, a2.2)) :=
  @Dnp3.Proofs.C05.continuation_is_stored a f ctrl objects raw series dl cont hp hq hm hu hs hfin

/-- **C05.4 (`resend_is_awaited_fragment`, full statement)**: a READ repeated during the confirm wait of ANY
    fragment of a response series re-sends exactly that fragment's octets.  After a matching CONFIRM on a
    non-final fragment (and unless the task died, as in `continuation_is_stored`) the pass up to `a2` emitted
    callbacks only (`l`) and then transmitted the continuation fragment `bytes`; the session continues from `a2`
    as in `continuation_is_stored` (with `next = some sr` it blocks in the confirm wait of that fragment); and in
    EVERY later accumulator `b` that still has `a2`'s solicited buffer and stored request, a READ `f'` that
    repeats the last recorded request is answered — whatever series/deadline/continuation the wait carries —
    by re-transmitting exactly `bytes`, leaving buffer and stored request untouched (so the same holds for the
    next repeat). -/
theorem resend_is_awaited_fragment {a : Acc} {f : Frag} {ctrl : AppCtrl} {objects : Except Nat (List ObjHdr)}
    {raw : List Nat} {last : LastReq} (series : Series) (dl : Nat) (cont : SolCont)
    (hp : a.1.pending = some f) (hq : parseRequest f.data = .request ctrl 0 objects raw)
    (hm : a.1.cfg.anymaster = true ∨ f.src = a.1.cfg.master)
    (hu : ctrl.uns = false) (hs : ctrl.seq = series.ecsn) (hfin : series.fin = false)
    (hl : a.1.lastReq = some last) :
    (∃ a1, solWaitOnFragment a series dl cont = die a1) ∨
    ∃ (bytes : List Nat) (a2 : Acc) (next : Option Series),
      (∃ l, a2.2 = a.2 ++ l ++ [.tx f.src bytes] ∧ ∀ o ∈ l, ∃ c, o = OOut.cb c) ∧
      solWaitOnFragment a series dl cont =
        (match next with
         | none => resumeAfterSol a2 cont
         | some sr => .blocked ({ a2.1 with mode := .solWait sr (a2.1.now + a2.1.cfg.ctimeout) cont }, a2.2)) ∧
      ∀ (b : Acc) (f' : Frag) (ctrl' : AppCtrl) (hs' : List ObjHdr) (raw' : List Nat)
        (series' : Series) (deadline' : Nat) (cont' : SolCont),
        b.1.solBuf = a2.1.solBuf → b.1.lastReq = a2.1.lastReq →
        b.1.pending = some f' → parseRequest f'.data = .request ctrl' 1 (.ok hs') raw' →
        (b.1.cfg.anymaster = true ∨ f'.src = b.1.cfg.master) → f'.broadcast = none →
        last.seq = ctrl'.seq → last.frag = f'.data →
        ∃ b', solWaitOnFragment b series' deadline' cont' = .blocked b' ∧
          b'.2 = b.2 ++ [.tx f'.src bytes] ∧ b'.1.solBuf = b.1.solBuf ∧ b'.1.lastReq = b.1.lastReq :=
  @Dnp3.Proofs.C05.resend_is_awaited_fragment a f ctrl objects raw last series dl cont hp hq hm hu hs hfin hl

end Dnp3.Props.C05
