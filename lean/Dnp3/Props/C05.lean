import Dnp3.Model.OutstationTrace
import Dnp3.Proofs.OutstationC05
import Dnp3.Proofs.OutstationC05Trace
/-!
# C05 — A retransmitted request is answered from memory and never executed twice

Restated verbatim from `Dnp3.Proofs.OutstationC05` (`IsRepeat`, `isExec`, `rxAccept`, `rebased` live there).
Defect D14 (the idle-path echo of a repeated non-READ request re-ORed the CURRENT IIN, and possibly the CON bit,
into the stored header) is repaired: the stored response goes out verbatim through `repeatSolicited`, as in the
unsolicited confirm wait.  Full C05.2 for the idle path: `repeat_nonread_idle` (exact new state and outputs: no
IIN evaluation, `lastReq` / `lastBroadcast` / `restart` / `db` untouched, nothing executed, the stored confirm
wait is returned) and `repeat_nonread_same_bytes_idle` (byte-for-byte the original octets provided the solicited
buffer was not overwritten since — same proviso as `repeat_nonread_same_bytes_unsolwait`); the former D14 run is
kept as the regression example `repeat_nonread_idle_verbatim_example` (same octets in steps 0 and 2).
Known finding D31 (residue of D14, outside `IsRepeat`): a repeated request whose OBJECTS do not parse is classified
`.malformed` before the duplicate check and answered afresh with the current IIN
(`repeat_malformed_not_classified`, `repeat_malformed_reanswered_counterexample`).
Defect D5 (echo of a READ repeated during the confirm wait of a later fragment spliced two fragments) is
repaired: the continuation fragment becomes the stored response (`continuation_is_stored`), so the full
C05.4 holds (`resend_is_stored_fragment`, `resend_is_awaited_fragment`).
-/
namespace Dnp3.Props.C05
open Dnp3 Dnp3.Proofs.C05 Dnp3.Proofs.C04

/-- a unicast fragment with the sequence number and the exact octets of the last processed request
    is classified as a repeat (for every function code but CONFIRM) and carries the stored response -/
theorem repeat_is_classified (s : OState) (f : Frag) (ctrl : AppCtrl) (func : Nat) (hs : List ObjHdr)
    (last : LastReq) (hl : s.lastReq = some last) (hseq : last.seq = ctrl.seq) (hfrag : last.frag = f.data)
    (hf : func ≠ 0) (hb : f.broadcast = none) :
    (func = 1 → ∃ r, classify s f ctrl func (.ok hs) = .repeatRead r hs ∧ r = last.response) ∧
    (func ≠ 1 → ∃ r, classify s f ctrl func (.ok hs) = .repeatNonRead r ∧ r = last.response) := by
  unfold classify
  simp [hf, hb, hl, hseq, hfrag]

/-- **C05.1 (step level)**: in EVERY state with no deferred read (idle, confirm waits, …), receiving
    again the last recorded non-READ request (same sequence number, identical bytes, unicast, objects
    well-formed) fires no control / write / freeze / time / restart callback. -/
theorem repeat_nonread_not_executed (env : OEnv) (s : OState) (src dst : Nat) (data : List Nat) (f : Frag)
    {ctrl : AppCtrl} {func : Nat} {objects : Except Nat (List ObjHdr)} {raw : List Nat} {last : LastReq}
    (hacc : rxAccept env s src dst data = some f)
    (hq : parseRequest data = .request ctrl func objects raw)
    (hd : s.deferred = none)
    (hr : IsRepeat s f ctrl func objects last) :
    ∀ o ∈ (Outstation.step env s (.rx src dst data)).2, isExec o = false :=
  @Dnp3.Proofs.C05.repeat_nonread_not_executed env s src dst data f ctrl func objects raw last hacc hq hd hr

/-- **C05.1 (unsolicited confirm wait)**: no executing callback -/
theorem repeat_nonread_not_executed_unsolwait {a : Acc} {f : Frag} {ctrl : AppCtrl} {func : Nat}
    {objects : Except Nat (List ObjHdr)} {raw : List Nat} {last : LastReq} (resp : Resp) (isNull : Bool)
    (hp : a.1.pending = some f) (hq : parseRequest f.data = .request ctrl func objects raw)
    (hm : a.1.cfg.anymaster = true ∨ f.src = a.1.cfg.master)
    (hr : IsRepeat a.1 f ctrl func objects last) :
    ∃ l, (accOf (unsolWaitOnFragment a resp isNull)).2 = a.2 ++ l ∧ ∀ o ∈ l, isExec o = false :=
  @Dnp3.Proofs.C05.repeat_nonread_not_executed_unsolwait a f ctrl func objects raw last resp isNull hp hq hm hr

/-- **C05.1 / C05.2 (unsolicited confirm wait)**: a retransmitted non-READ request arriving during the
    unsolicited confirm wait is not executed; the model blocks again having transmitted exactly
    `repeatSolicited` of the stored response (nothing if no response was stored), i.e. the stored header
    written over the current solicited buffer, cut to the stored size. -/
theorem repeat_nonread_unsolwait {a : Acc} {f : Frag} {ctrl : AppCtrl} {func : Nat}
    {objects : Except Nat (List ObjHdr)} {raw : List Nat} {last : LastReq} (resp : Resp) (isNull : Bool)
    (hp : a.1.pending = some f) (hq : parseRequest f.data = .request ctrl func objects raw)
    (hm : a.1.cfg.anymaster = true ∨ f.src = a.1.cfg.master)
    (hr : IsRepeat a.1 f ctrl func objects last) :
    unsolWaitOnFragment a resp isNull = .blocked
      (match last.response with
       | some r =>
         ({ (popped a).1 with deferred := none, solBuf := writeAt a.1.solBuf 0 (respHeader r) },
           a.2 ++ [.tx f.src ((writeAt a.1.solBuf 0 (respHeader r)).take (max 4 r.size))])
       | none => ({ (popped a).1 with deferred := none }, a.2)) :=
  @Dnp3.Proofs.C05.repeat_nonread_unsolwait a f ctrl func objects raw last resp isNull hp hq hm hr

/-- **C05.2 (`repeat_nonread_same_bytes_unsolwait`)**: PROVIDED the solicited buffer still is what the
    original transmission left (`solBuf = writeAt b0 0 (respHeader r)`, `b0` the buffer the response `r`
    was originally sent from by `repeatSolicited`/`writeSolicited`), the octets re-sent during the
    unsolicited confirm wait are byte-for-byte the octets sent originally. -/
theorem repeat_nonread_same_bytes_unsolwait {a : Acc} {f : Frag} {ctrl : AppCtrl} {func : Nat}
    {objects : Except Nat (List ObjHdr)} {raw : List Nat} {last : LastReq} (resp : Resp) (isNull : Bool) (r : Resp)
    (b0 : List Nat) (a00 : Acc) (dst0 : Nat)
    (hp : a.1.pending = some f) (hq : parseRequest f.data = .request ctrl func objects raw)
    (hm : a.1.cfg.anymaster = true ∨ f.src = a.1.cfg.master)
    (hr : IsRepeat a.1 f ctrl func objects last) (hresp : last.response = some r)
    (horig : a00.1.solBuf = b0)                                
    (hbuf : a.1.solBuf = (repeatSolicited a00 dst0 r).1.solBuf) : ∃ bytes, (repeatSolicited a00 dst0 r).2 = a00.2 ++ [.tx dst0 bytes] ∧
        (accOf (unsolWaitOnFragment a resp isNull)).2 = a.2 ++ [.tx f.src bytes] :=
  @Dnp3.Proofs.C05.repeat_nonread_same_bytes_unsolwait a f ctrl func objects raw last resp isNull r b0 a00 dst0 hp hq hm hr hresp horig hbuf

/-- **C05.2 (`repeat_nonread_idle`, idle path; defect D14 is repaired)**: a retransmitted non-READ request handled
    from idle is answered by `repeatSolicited` of the STORED response — the stored header written over the current
    solicited buffer, cut to the stored size; nothing if no response was stored — and NOT through
    `writeSolicited`: no IIN is evaluated (so `lastBroadcast`, `restart`, `db` are untouched and no current IIN
    bit or CON bit is OR-ed in), the record of the request (`lastReq`: sequence number, octets, response, and
    the confirm wait its response opened, which is returned as the series to wait on) stays exactly as it is,
    and nothing is executed.  The state afterwards is `rebased …` (only a retransmission of the stored SELECT
    moves that select's frame id, see `Dnp3.Proofs.C04.step_select_change`) with the header written into
    `solBuf`. -/
theorem repeat_nonread_idle {a : Acc} {f : Frag} {ctrl : AppCtrl} {func : Nat}
    {objects : Except Nat (List ObjHdr)} {raw : List Nat} {last : LastReq}
    (hr : IsRepeat a.1 f ctrl func objects last) :
    ∃ a', handleRequestFromIdle a f ctrl func objects raw = some (a', last.series) ∧
      a'.2 = a.2 ++ (match last.response with
        | some r => [.tx f.src ((writeAt a.1.solBuf 0 (respHeader r)).take (max 4 r.size))]
        | none => []) ∧
      a'.1 = { rebased a.1 f ctrl func raw with
                solBuf := match last.response with
                  | some r => writeAt a.1.solBuf 0 (respHeader r)
                  | none => a.1.solBuf } ∧
      a'.1.lastReq = a.1.lastReq ∧ a'.1.lastBroadcast = a.1.lastBroadcast ∧ a'.1.restart = a.1.restart ∧
      a'.1.db = a.1.db ∧ a'.1.deferred = a.1.deferred ∧ a'.1.mode = a.1.mode ∧
      ∀ o ∈ a'.2, o ∈ a.2 ∨ isExec o = false :=
  @Dnp3.Proofs.C05.repeat_nonread_idle a f ctrl func objects raw last hr

/-- **C05.2 (`repeat_nonread_same_bytes_idle`)**: PROVIDED the solicited buffer still is what the original
    transmission left (`solBuf = writeAt b0 0 (respHeader r)`, `b0` the buffer the response `r` was originally sent
    from by `repeatSolicited`/`writeSolicited`), the octets re-sent from idle are byte-for-byte the octets sent
    originally; the buffer and the stored request are left as they were, so the statement applies again to a
    further repeat. -/
theorem repeat_nonread_same_bytes_idle {a : Acc} {f : Frag} {ctrl : AppCtrl} {func : Nat}
    {objects : Except Nat (List ObjHdr)} {raw : List Nat} {last : LastReq} (r : Resp)
    (b0 : List Nat) (a00 : Acc) (dst0 : Nat)
    (hr : IsRepeat a.1 f ctrl func objects last) (hresp : last.response = some r)
    (horig : a00.1.solBuf = b0)                                
    (hbuf : a.1.solBuf = (repeatSolicited a00 dst0 r).1.solBuf) : ∃ bytes a', (repeatSolicited a00 dst0 r).2 = a00.2 ++ [.tx dst0 bytes] ∧
        handleRequestFromIdle a f ctrl func objects raw = some (a', last.series) ∧
        a'.2 = a.2 ++ [.tx f.src bytes] ∧ a'.1.solBuf = a.1.solBuf ∧ a'.1.lastReq = a.1.lastReq :=
  @Dnp3.Proofs.C05.repeat_nonread_same_bytes_idle a f ctrl func objects raw last r b0 a00 dst0 hr hresp horig hbuf

/-- **D14 regression** (this EVALUATES the model including the current `Db` component): the repeat is answered
    with the SAME octets as the original request (IIN1 = 0x80 both times; before the repair the broadcast bit
    IIN1.0 was OR-ed into the repeated response, 0x81), and nothing is executed. -/
theorem repeat_nonread_idle_verbatim_example :
    (Outstation.run {} (Outstation.start {} 10).1 d14Inputs).2.map txFrags =
      [[(1, [192, 129, 128, 0, 52, 2, 7, 1, 0, 0])], [], [(1, [192, 129, 128, 0, 52, 2, 7, 1, 0, 0])]] ∧
    (Outstation.run {} (Outstation.start {} 10).1 d14Inputs).2.map (fun l => (l.filter isExec).length) = [0, 0, 0] :=
  @Dnp3.Proofs.C05.repeat_nonread_idle_verbatim_example

/-- **`repeat_malformed_reanswered_counterexample` (finding D31)**: the C05.2 statements above are about repeats
    whose objects parse (`IsRepeat.objectsOk`).  A byte-identical repeat of a request whose OBJECTS do not parse is
    classified `.malformed` before the duplicate check (`repeat_malformed_not_classified`), so it is answered
    afresh: the second reply carries the CURRENT IIN1 (0x81: the broadcast bit) where the original carried 0x80.
    Nothing is executed either time. -/
theorem repeat_malformed_reanswered_counterexample :
    (Outstation.run {} (Outstation.start {} 10).1 d27Inputs).2.map txFrags =
      [[(1, [192, 129, 128, 4])], [], [(1, [192, 129, 129, 4])]] ∧
    (Outstation.run {} (Outstation.start {} 10).1 d27Inputs).2.map (fun l => (l.filter isExec).length) = [0, 0, 0] :=
  @Dnp3.Proofs.C05.repeat_malformed_reanswered_counterexample

/-- exact characterisation of finding D31: whatever the last recorded request is, a unicast non-CONFIRM fragment
    whose objects do not parse is classified `.malformed` — never as a repeat -/
theorem repeat_malformed_not_classified (s : OState) (f : Frag) (ctrl : AppCtrl) (func : Nat) (e : Nat)
    (hf : func ≠ 0) (hb : f.broadcast = none) :
    classify s f ctrl func (.error e) = .malformed e :=
  @Dnp3.Proofs.C05.repeat_malformed_not_classified s f ctrl func e hf hb

/-- **C05.3 (`unsol_retry_identical`)**: a retry after the unsolicited confirm timeout transmits the stored
    header over the current unsolicited buffer; PROVIDED `unsolBuf` still is what the original
    transmission (`repeatUnsolicited a00 resp`) left, the retry is byte-for-byte the original fragment. -/
theorem unsol_retry_identical (a : Acc) (resp : Resp) (isNull : Bool) (n : Option Nat) (a00 : Acc)
    (hretry : n ≠ some 0) (hd : a.1.deferred = none)
    (hbuf : a.1.unsolBuf = (repeatUnsolicited a00 resp).1.unsolBuf) :
    ∃ bytes a', (repeatUnsolicited a00 resp).2 = a00.2 ++ [.tx a00.1.cfg.master bytes] ∧
      unsolWaitTimeout a resp isNull n = .blocked a' ∧
      a'.2 = a.2 ++ [.cb (.unsolTimeout resp.ctrl.seq true), .tx a.1.cfg.master bytes] ∧
      a'.1.unsolBuf = a.1.unsolBuf :=
  @Dnp3.Proofs.C05.unsol_retry_identical a resp isNull n a00 hretry hd hbuf

/-- **C05.3 (invariant)**: a fragment handled during the unsolicited confirm wait never touches `unsolBuf`:
    either the series ends (`finishUnsol`, entered with `unsolBuf` unchanged) or the task blocks again (or
    dies) with `unsolBuf` — and, unless it died, the wait mode — unchanged. -/
theorem unsolWaitOnFragment_keeps_unsolBuf (a : Acc) (resp : Resp) (isNull : Bool) :
    (∃ a1 c, unsolWaitOnFragment a resp isNull = finishUnsol a1 isNull c ∧ a1.1.unsolBuf = a.1.unsolBuf) ∨
    KeepsUnsol a (accOf (unsolWaitOnFragment a resp isNull)) :=
  @Dnp3.Proofs.C05.unsolWaitOnFragment_keeps_unsolBuf a resp isNull

/-- **C05.4 (`resend_is_stored_fragment`)**: a READ repeated during the solicited confirm wait
    (same sequence number and bytes as the last recorded request) is answered by `repeatSolicited` of the
    STORED response header over the CURRENT solicited buffer.  PROVIDED the buffer still is what the
    transmission of that stored response left, the echo is byte-for-byte that fragment; the buffer and the
    stored request are left as they were, so the statement applies again to a further repeat.

    (Since the repair of defect D5 the stored response is the fragment awaiting confirmation for EVERY
    fragment of a series — `continuation_is_stored` — so the proviso holds throughout the confirm wait:
    `resend_is_awaited_fragment`.) -/
theorem resend_is_stored_fragment {a : Acc} {f : Frag} {ctrl : AppCtrl}
    {objects : Except Nat (List ObjHdr)} {raw : List Nat} {last : LastReq} {hs : List ObjHdr} {r : Resp}
    (series : Series) (deadline : Nat) (cont : SolCont) (a00 : Acc) (dst0 : Nat)
    (hp : a.1.pending = some f) (hq : parseRequest f.data = .request ctrl 1 objects raw)
    (hm : a.1.cfg.anymaster = true ∨ f.src = a.1.cfg.master)
    (hl : a.1.lastReq = some last) (hseq : last.seq = ctrl.seq) (hfrag : last.frag = f.data)
    (hu : f.broadcast = none) (hobj : objects = .ok hs) (hresp : last.response = some r)
    (hbuf : a.1.solBuf = (repeatSolicited a00 dst0 r).1.solBuf) :
    ∃ bytes a', (repeatSolicited a00 dst0 r).2 = a00.2 ++ [.tx dst0 bytes] ∧
      solWaitOnFragment a series deadline cont = .blocked a' ∧
      a'.2 = a.2 ++ [.tx f.src bytes] ∧ a'.1.solBuf = a.1.solBuf ∧ a'.1.lastReq = a.1.lastReq :=
  @Dnp3.Proofs.C05.resend_is_stored_fragment a f ctrl objects raw last hs r series deadline cont a00 dst0 hp hq hm hl hseq hfrag hu hobj hresp hbuf

/-- **C05.4 (`continuation_is_stored`, the D5 repair)**: a matching CONFIRM on a non-final fragment of a
    response series: either the IIN cannot be computed and the task dies (`writeSolicited … = none`, i.e.
    `unwrittenClasses = none`, defect D3 — nothing to do with D5), or the next fragment is transmitted exactly
    as `repeatSolicited a00 f.src r2` would for some accumulator `a00` and response record `r2`, and the
    session continues (resumes the idle pass if no confirmation is needed, else blocks in the confirm wait of
    that fragment) from an accumulator `a2` whose stored response is `r2` and whose solicited buffer is what
    that transmission left. -/
theorem continuation_is_stored {a : Acc} {f : Frag} {ctrl : AppCtrl} {objects : Except Nat (List ObjHdr)}
    {raw : List Nat} (series : Series) (dl : Nat) (cont : SolCont)
    (hp : a.1.pending = some f) (hq : parseRequest f.data = .request ctrl 0 objects raw)
    (hm : a.1.cfg.anymaster = true ∨ f.src = a.1.cfg.master)
    (hu : ctrl.uns = false) (hs : ctrl.seq = series.ecsn) (hfin : series.fin = false) :
    (∃ a1, solWaitOnFragment a series dl cont = die a1) ∨
    ∃ (a00 : Acc) (r2 : Resp) (bytes : List Nat) (a2 : Acc) (next : Option Series),
      (repeatSolicited a00 f.src r2).2 = a00.2 ++ [.tx f.src bytes] ∧
      a2.2 = a00.2 ++ [.tx f.src bytes] ∧
      a2.1.solBuf = (repeatSolicited a00 f.src r2).1.solBuf ∧
      a2.1.lastReq = a.1.lastReq.map (fun lr => { lr with response := some r2 }) ∧
      solWaitOnFragment a series dl cont =
        (match next with
         | none => resumeAfterSol a2 cont
         | some sr => .blocked ({ a2.1 with mode := .solWait sr (a2.1.now + a2.1.cfg.ctimeout) cont }, a2.2)) :=
  @Dnp3.Proofs.C05.continuation_is_stored a f ctrl objects raw series dl cont hp hq hm hu hs hfin

/-- **C05.4 (`resend_is_awaited_fragment`, full statement)**: a READ repeated during the confirm wait of ANY
    fragment of a response series re-sends exactly that fragment's octets.  After a matching CONFIRM on a
    non-final fragment (and unless the task died, as in `continuation_is_stored`) the pass up to `a2` emitted
    callbacks only (`l`) and then transmitted the continuation fragment `bytes`; the session continues from `a2`
    as in `continuation_is_stored` (with `next = some sr` it blocks in the confirm wait of that fragment); and in
    EVERY later accumulator `b` that still has `a2`'s solicited buffer and stored request, a READ `f'` that
    repeats the last recorded request is answered — whatever series/deadline/continuation the wait carries —
    by re-transmitting exactly `bytes`, leaving buffer and stored request untouched (so the same holds for the
    next repeat). -/
theorem resend_is_awaited_fragment {a : Acc} {f : Frag} {ctrl : AppCtrl} {objects : Except Nat (List ObjHdr)}
    {raw : List Nat} {last : LastReq} (series : Series) (dl : Nat) (cont : SolCont)
    (hp : a.1.pending = some f) (hq : parseRequest f.data = .request ctrl 0 objects raw)
    (hm : a.1.cfg.anymaster = true ∨ f.src = a.1.cfg.master)
    (hu : ctrl.uns = false) (hs : ctrl.seq = series.ecsn) (hfin : series.fin = false)
    (hl : a.1.lastReq = some last) :
    (∃ a1, solWaitOnFragment a series dl cont = die a1) ∨
    ∃ (bytes : List Nat) (a2 : Acc) (next : Option Series),
      (∃ l, a2.2 = a.2 ++ l ++ [.tx f.src bytes] ∧ ∀ o ∈ l, ∃ c, o = OOut.cb c) ∧
      solWaitOnFragment a series dl cont =
        (match next with
         | none => resumeAfterSol a2 cont
         | some sr => .blocked ({ a2.1 with mode := .solWait sr (a2.1.now + a2.1.cfg.ctimeout) cont }, a2.2)) ∧
      ∀ (b : Acc) (f' : Frag) (ctrl' : AppCtrl) (hs' : List ObjHdr) (raw' : List Nat)
        (series' : Series) (deadline' : Nat) (cont' : SolCont),
        b.1.solBuf = a2.1.solBuf → b.1.lastReq = a2.1.lastReq →
        b.1.pending = some f' → parseRequest f'.data = .request ctrl' 1 (.ok hs') raw' →
        (b.1.cfg.anymaster = true ∨ f'.src = b.1.cfg.master) → f'.broadcast = none →
        last.seq = ctrl'.seq → last.frag = f'.data →
        ∃ b', solWaitOnFragment b series' deadline' cont' = .blocked b' ∧
          b'.2 = b.2 ++ [.tx f'.src bytes] ∧ b'.1.solBuf = b.1.solBuf ∧ b'.1.lastReq = b.1.lastReq :=
  @Dnp3.Proofs.C05.resend_is_awaited_fragment a f ctrl objects raw last series dl cont hp hq hm hu hs hfin hl

end Dnp3.Props.C05

/-! ## C05 at TRACE level (`Dnp3.Proofs.OutstationC05Trace`)

`repeat_never_executes_twice`: over every run from `Outstation.start`, a byte-identical non-READ request delivered
again — with only clock ticks, CONFIRM fragments and undelivered frames in between — is not executed a second time
and is answered with exactly the solicited octets sent for it the first time (or the task died: `OOut.panic`).
Supporting statements: the per-step lemmas `nr_step` (the step that receives the request: it establishes the
"echo-ready" state `ER`, and from an `ER` state reproduces record and octets) and `between_step` (ticks / CONFIRMs
keep `ER`), and the two trace invariants they rest on (`deferred_only_in_unsolWait`, `nonfinal_wait_is_read`).
`solTx`, `Unicast`, `Between`, `ER`, `StepPost`, `StepKeep`, `DefInv`, `LRInv` are defined in
`Dnp3.Proofs.OutstationC05Trace`.  Requests whose objects do not parse are excluded (finding D31, see
`repeat_malformed_reanswered_counterexample` above). -/
namespace Dnp3.Props.C05
open Dnp3 Dnp3.Proofs Dnp3.Proofs.C04 Dnp3.Proofs.C05T

/-- **C05 (trace level) `repeat_never_executes_twice`**.  In EVERY run of the outstation from construction
    (`Outstation.start cfg evMax`, any input list, any configuration, any transmit buffer sizes): let inputs `i < j`
    both deliver the byte-identical request fragment `data` — a unicast frame for this outstation (`Unicast`:
    destination its address or the enabled self address, valid source, neither empty nor longer than the receive
    buffer) from the accepted master, which parses as a request with function code other than CONFIRM (0) and
    READ (1) and whose OBJECTS PARSE (`.ok hs`; finding D31, `repeat_malformed_reanswered_counterexample`: a
    repeated request whose objects do not parse is answered afresh, so that case is excluded here) — and let every
    input strictly between them be a clock tick, a CONFIRM fragment (solicited or unsolicited, any sequence number,
    from anyone, to any address) or a frame the transport layer does not deliver (`Between`).  Then

    1. step `j` fires NO executing callback (`isExec`: control / write / freeze / time / restart, begin/end
       fragment): the request is not executed a second time; and
    2. the solicited responses step `j` transmits (`solTx`: the transmitted application fragments with function
       octet 0x81, with their destination) are EXACTLY those step `i` transmitted — the same octets to the same
       address, and none at all if the request has no response (functions 6, 8, 10, 12) — unless the task died
       on the way: `OOut.panic` is among the outputs of some step `k` with `i ≤ k ≤ j` (with the opaque `Db`
       the IIN computation may fail at any time: defect D3).  If the task was dead already before step `i`, both
       steps output nothing, so the equation holds.

    The state the session is in at step `i` is arbitrary (idle, waiting for the confirm of any fragment of a
    solicited series, waiting for an unsolicited confirm with or without a deferred READ), as is the state at step
    `j` (idle, the confirm wait the response itself opened, an unsolicited confirm wait started in between);
    the request at step `i` may itself be new or a retransmission. -/
theorem repeat_never_executes_twice (cfg : OCfg) (evMax : Nat) (env : OEnv) (inputs : List OInput)
    (i j : Nat) (hij : i < j) (hj : j < inputs.length)
    (src dst : Nat) (data : List Nat) (ctrl : AppCtrl) (func : Nat) (hs : List ObjHdr) (raw : List Nat)
    (hi : inputs[i]'(Nat.lt_trans hij hj) = .rx src dst data) (hjj : inputs[j] = .rx src dst data)
    (hq : parseRequest data = .request ctrl func (.ok hs) raw) (hf0 : func ≠ 0) (hf1 : func ≠ 1)
    (hu : Unicast env src dst data) (hm : cfg.anymaster = true ∨ src = cfg.master)
    (hbetween : ∀ (k : Nat) (hk : k < inputs.length), i < k → k < j → Between env inputs[k]) :
    (∀ o ∈ outsAt env (Outstation.start cfg evMax).1 inputs j hj, isExec o = false) ∧
    (solTx (outsAt env (Outstation.start cfg evMax).1 inputs j hj) =
        solTx (outsAt env (Outstation.start cfg evMax).1 inputs i (Nat.lt_trans hij hj)) ∨
      ∃ (k : Nat) (hk : k < inputs.length), i ≤ k ∧ k ≤ j ∧
        OOut.panic ∈ outsAt env (Outstation.start cfg evMax).1 inputs k hk) :=
  @Dnp3.Proofs.C05T.repeat_never_executes_twice cfg evMax env inputs i j hij hj src dst data ctrl func hs raw hi hjj hq hf0 hf1 hu hm hbetween

/-- **Lemma A / C**: the step that receives the non-READ request, from any state of a run -/
theorem nr_step (env : OEnv) (s : OState) (src dst : Nat) (data : List Nat) {ctrl : AppCtrl} {func : Nat}
    {hs : List ObjHdr} {raw : List Nat} (hu : Unicast env src dst data)
    (hq : parseRequest data = .request ctrl func (.ok hs) raw) (hf0 : func ≠ 0) (hf1 : func ≠ 1)
    (hm : s.cfg.anymaster = true ∨ src = s.cfg.master) (halive : s.mode ≠ .dead)
    (hD : DefInv s) (hJ : LRInv s) :
    StepPost ctrl.seq data src s (Outstation.step env s (.rx src dst data)) :=
  @Dnp3.Proofs.C05T.nr_step env s src dst data ctrl func hs raw hu hq hf0 hf1 hm halive hD hJ

/-- **Lemma B**: a step between the two copies keeps `ER` (or the task dies in it) -/
theorem between_step (env : OEnv) (s : OState) (inp : OInput) (hb : Between env inp) {seq : Nat} {data : List Nat}
    {resp : Option Resp} {bytes : List Nat} (h : ER seq data resp bytes s) :
    StepKeep seq data resp bytes (Outstation.step env s inp) :=
  @Dnp3.Proofs.C05T.between_step env s inp hb seq data resp bytes h

/-- along every run from construction a READ is deferred only while the task waits for an unsolicited confirm
    (or the task is dead) -/
theorem deferred_only_in_unsolWait (cfg : OCfg) (evMax : Nat) (env : OEnv) (inputs : List OInput) (n : Nat)
    (h : n ≤ inputs.length) : DefInv (C04.stateAt env (Outstation.start cfg evMax).1 inputs n) :=
  @Dnp3.Proofs.C05T.deferred_only_in_unsolWait cfg evMax env inputs n h

/-- along every run from construction: if the stored request waits on a NON-final fragment it is a READ, and a
    deferred request is a READ -/
theorem nonfinal_wait_is_read (cfg : OCfg) (evMax : Nat) (env : OEnv) (inputs : List OInput) (n : Nat)
    (h : n ≤ inputs.length) : LRInv (C04.stateAt env (Outstation.start cfg evMax).1 inputs n) :=
  @Dnp3.Proofs.C05T.nonfinal_wait_is_read cfg evMax env inputs n h

theorem rxAccept_unicast {env : OEnv} {src dst : Nat} {data : List Nat} (hu : Unicast env src dst data)
    (s : OState) (ha : s.mode ≠ .dead) :
    C04.rxAccept env s src dst data = some ⟨s.frameId, src, none, data⟩ :=
  @Dnp3.Proofs.C05T.rxAccept_unicast env src dst data hu s ha


/-- evaluated instances (`exInputs`: idle; `exInputsU`: first handled in the unsolicited confirm wait; `exInputsW`: a
    WRITE, executed once) -/
theorem repeat_never_executes_twice_examples :
    (Outstation.run {} (Outstation.start {} 10).1 exInputs).2.map solTx =
      [[(1, [192, 129, 128, 0, 52, 2, 7, 1, 0, 0])], [], [], [(1, [192, 129, 128, 0, 52, 2, 7, 1, 0, 0])]] ∧
    (Outstation.run {} (Outstation.start { unsolicited := true } 10).1 exInputsU).2.map solTx =
      [[(1, [192, 129, 128, 0, 52, 2, 7, 1, 0, 0])], [], [], [], [(1, [192, 129, 128, 0, 52, 2, 7, 1, 0, 0])]] ∧
    (Outstation.run {} (Outstation.start {} 10).1 exInputsW).2.map solTx =
      [[(1, [193, 129, 128, 0])], [], [(1, [193, 129, 128, 0])]] ∧
    (Outstation.run {} (Outstation.start {} 10).1 exInputsW).2.map (fun l => (l.filter isExec).length) = [1, 0, 0] :=
  Dnp3.Proofs.C05T.repeat_never_executes_twice_examples

-- the hypotheses of `repeat_never_executes_twice` hold for the run `exInputs`, steps 0 and 3
example := repeat_never_executes_twice {} 10 {} exInputs 0 3 (by decide) (by decide) 1 1024 [0xC0, 23]
  (AppCtrl.ofNat 0xC0) 23 [] [] rfl rfl (by rfl) (by decide) (by decide)
  ⟨.inl rfl, by decide, by decide, by decide⟩ (.inr rfl)
  (by
    intro k hk h1 h2
    have : k = 1 ∨ k = 2 := by omega
    rcases this with rfl | rfl
    · exact trivial
    · exact .inl ⟨_, _, _, rfl⟩)
-- `between_step` / `nr_step` apply to the state `exER` (it remembers the request `C0 0C`)
example := between_step {} exER (.tick 10) trivial exER_er
example := nr_step {} exER 1 1024 [0xC0, 12] (ctrl := AppCtrl.ofNat 0xC0) (func := 12) (hs := []) (raw := [])
  ⟨.inl rfl, by decide, by decide, by decide⟩ (by rfl) (by decide) (by decide) (.inr rfl)
  (fun e => (by cases e)) (.inr (.inl rfl))
  ⟨fun lr sr e es => (by cases e; cases es), fun d e => (by cases e)⟩
example := deferred_only_in_unsolWait {} 10 {} exInputs 4 (by decide)
example := nonfinal_wait_is_read {} 10 {} exInputs 4 (by decide)
example : Unicast {} 1 1024 [0xC0, 23] := ⟨.inl rfl, by decide, by decide, by decide⟩

end Dnp3.Props.C05
