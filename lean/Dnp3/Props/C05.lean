import Dnp3.Model.OutstationTrace
/-!
# C05 — A retransmitted request is answered from memory and never executed twice
-/
namespace Dnp3.Props.C05
open Dnp3

/-- a unicast fragment with the sequence number and the exact octets of the last processed request
    is classified as a repeat (for every function code but CONFIRM) and carries the stored response -/
theorem repeat_is_classified (s : OState) (f : Frag) (ctrl : AppCtrl) (func : Nat) (hs : List ObjHdr)
    (last : LastReq) (hl : s.lastReq = some last) (hseq : last.seq = ctrl.seq) (hfrag : last.frag = f.data)
    (hf : func ≠ 0) (hb : f.broadcast = none) :
    (func = 1 → ∃ r, classify s f ctrl func (.ok hs) = .repeatRead r hs ∧ r = last.response) ∧
    (func ≠ 1 → ∃ r, classify s f ctrl func (.ok hs) = .repeatNonRead r ∧ r = last.response) := by
  unfold classify
  simp [hf, hb, hl, hseq, hfrag]

end Dnp3.Props.C05
