import Dnp3.Model.OutstationTrace
import Dnp3.Proofs.OutstationC05
/-!
# C05 — A retransmitted request is answered from memory and never executed twice

Restated verbatim from `Dnp3.Proofs.OutstationC05` (`IsRepeat`, `isExec`, `rxAccept`, `rebased` live there).
Defect D14 (the idle-path echo of a repeated non-READ request re-ORed the CURRENT IIN, and possibly the CON bit,
into the stored header) is repaired: the stored response goes out verbatim through `repeatSolicited`, as in the
unsolicited confirm wait.  Full C05.2 for the idle path: `repeat_nonread_idle` (exact new state and outputs: no
IIN evaluation, `lastReq` / `lastBroadcast` / `restart` / `db` untouched, nothing executed, the stored confirm
wait is returned) and `repeat_nonread_same_bytes_idle` (byte-for-byte the original octets provided the solicited
buffer was not overwritten since — same proviso as `repeat_nonread_same_bytes_unsolwait`); the former D14 run is
kept as the regression example `repeat_nonread_idle_verbatim_example` (same octets in steps 0 and 2).
Known finding D31 (residue of D14, outside `IsRepeat`): a repeated request whose OBJECTS do not parse is classified
`.malformed` before the duplicate check and answered afresh with the current IIN
(`repeat_malformed_not_classified`, `repeat_malformed_reanswered_counterexample`).
Defect D5 (echo of a READ repeated during the confirm wait of a later fragment spliced two fragments) is
repaired: the continuation fragment becomes the stored response (`continuation_is_stored`), so the full
C05.4 holds (`resend_is_stored_fragment`, `resend_is_awaited_fragment`).
-/
namespace Dnp3.Props.C05
open Dnp3 Dnp3.Proofs.C05 Dnp3.Proofs.C04

/-- a unicast fragment with the sequence number and the exact octets of the last processed request
    is classified as a repeat (for every function code but CONFIRM) and carries the stored response -/
theorem repeat_is_classified (s : OState) (f : Frag) (ctrl : AppCtrl) (func : Nat) (hs : List ObjHdr)
    (last : LastReq) (hl : s.lastReq = some last) (hseq : last.seq = ctrl.seq) (hfrag : last.frag = f.data)
    (hf : func ≠ 0) (hb : f.broadcast = none) :
    (func = 1 → ∃ r, classify s f ctrl func (.ok hs) = .repeatRead r hs ∧ r = last.response) ∧
    (func ≠ 1 → ∃ r, classify s f ctrl func (.ok hs) = .repeatNonRead r ∧ r = last.response) := by
  unfold classify
  simp [hf, hb, hl, hseq, hfrag]

/-- **C05.1 (step level)**: in EVERY state with no deferred read (idle, confirm waits, …), receiving
    again the last recorded non-READ request (same sequence number, identical bytes, unicast, objects
    well-formed) fires no control / write / freeze / time / restart callback. -/
theorem repeat_nonread_not_executed (env : OEnv) (s : OState) (src dst : Nat) (data : List Nat) (f : Frag)
    {ctrl : AppCtrl} {func : Nat} {objects : Except Nat (List ObjHdr)} {raw : List Nat} {last : LastReq}
    (hacc : rxAccept env s src dst data = some f)
    (hq : parseRequest data = .request ctrl func objects raw)
    (hd : s.deferred = none)
    (hr : IsRepeat s f ctrl func objects last) :
    ∀ o ∈ (Outstation.step env s (.rx src dst data)).2, isExec o = false :=
  @Dnp3.Proofs.C05.repeat_nonread_not_executed env s src dst data f ctrl func objects raw last hacc hq hd hr

/-- **C05.1 (unsolicited confirm wait)**: no executing callback -/
theorem repeat_nonread_not_executed_unsolwait {a : Acc} {f : Frag} {ctrl : AppCtrl} {func : Nat}
    {objects : Except Nat (List ObjHdr)} {raw : List Nat} {last : LastReq} (resp : Resp) (isNull : Bool)
    (hp : a.1.pending = some f) (hq : parseRequest f.data = .request ctrl func objects raw)
    (hm : a.1.cfg.anymaster = true ∨ f.src = a.1.cfg.master)
    (hr : IsRepeat a.1 f ctrl func objects last) :
    ∃ l, (accOf (unsolWaitOnFragment a resp isNull)).2 = a.2 ++ l ∧ ∀ o ∈ l, isExec o = false :=
  @Dnp3.Proofs.C05.repeat_nonread_not_executed_unsolwait a f ctrl func objects raw last resp isNull hp hq hm hr

/-- **C05.1 / C05.2 (unsolicited confirm wait)**: a retransmitted non-READ request arriving during the
    unsolicited confirm wait is not executed; the model blocks again having transmitted exactly
    `repeatSolicited` of the stored response (nothing if no response was stored), i.e. the stored header
    written over the current solicited buffer, cut to the stored size. -/
theorem repeat_nonread_unsolwait {a : Acc} {f : Frag} {ctrl : AppCtrl} {func : Nat}
    {objects : Except Nat (List ObjHdr)} {raw : List Nat} {last : LastReq} (resp : Resp) (isNull : Bool)
    (hp : a.1.pending = some f) (hq : parseRequest f.data = .request ctrl func objects raw)
    (hm : a.1.cfg.anymaster = true ∨ f.src = a.1.cfg.master)
    (hr : IsRepeat a.1 f ctrl func objects last) :
    unsolWaitOnFragment a resp isNull = .blocked
      (match last.response with
       | some r =>
         ({ (popped a).1 with deferred := none, solBuf := writeAt a.1.solBuf 0 (respHeader r) },
           a.2 ++ [.tx f.src ((writeAt a.1.solBuf 0 (respHeader r)).take (max 4 r.size))])
       | none => ({ (popped a).1 with deferred := none }, a.2)) :=
  @Dnp3.Proofs.C05.repeat_nonread_unsolwait a f ctrl func objects raw last resp isNull hp hq hm hr

/-- **C05.2 (`repeat_nonread_same_bytes_unsolwait`)**: PROVIDED the solicited buffer still is what the
    original transmission left (`solBuf = writeAt b0 0 (respHeader r)`, `b0` the buffer the response `r`
    was originally sent from by `repeatSolicited`/`writeSolicited`), the octets re-sent during the
    unsolicited confirm wait are byte-for-byte the octets sent originally. -/
theorem repeat_nonread_same_bytes_unsolwait {a : Acc} {f : Frag} {ctrl : AppCtrl} {func : Nat}
    {objects : Except Nat (List ObjHdr)} {raw : List Nat} {last : LastReq} (resp : Resp) (isNull : Bool) (r : Resp)
    (b0 : List Nat) (a00 : Acc) (dst0 : Nat)
    (hp : a.1.pending = some f) (hq : parseRequest f.data = .request ctrl func objects raw)
    (hm : a.1.cfg.anymaster = true ∨ f.src = a.1.cfg.master)
    (hr : IsRepeat a.1 f ctrl func objects last) (hresp : last.response = some r)
    (horig : a00.1.solBuf = b0)                                
    (hbuf : a.1.solBuf = (repeatSolicited a00 dst0 r).1.solBuf) : ∃ bytes, (repeatSolicited a00 dst0 r).2 = a00.2 ++ [.tx dst0 bytes] ∧
        (accOf (unsolWaitOnFragment a resp isNull)).2 = a.2 ++ [.tx f.src bytes] :=
  @Dnp3.Proofs.C05.repeat_nonread_same_bytes_unsolwait a f ctrl func objects raw last resp isNull r b0 a00 dst0 hp hq hm hr hresp horig hbuf

/-- **C05.2 (`repeat_nonread_idle`, idle path; defect D14 is repaired)**: a retransmitted non-READ request handled
    from idle is answered by `repeatSolicited` of the STORED response — the stored header written over the current
    solicited buffer, cut to the stored size; nothing if no response was stored — and NOT through
    `writeSolicited`: no IIN is evaluated (so `lastBroadcast`, `restart`, `db` are untouched and no current IIN
    bit or CON bit is OR-ed in), the record of the request (`lastReq`: sequence number, octets, response, and
    the confirm wait its response opened, which is returned as the series to wait on) stays exactly as it is,
    and nothing is executed.  The state afterwards is `rebased …` (only a retransmission of the stored SELECT
    moves that select's frame id, see `Dnp3.Proofs.C04.step_select_change`) with the header written into
    `solBuf`. -/
theorem repeat_nonread_idle {a : Acc} {f : Frag} {ctrl : AppCtrl} {func : Nat}
    {objects : Except Nat (List ObjHdr)} {raw : List Nat} {last : LastReq}
    (hr : IsRepeat a.1 f ctrl func objects last) :
    ∃ a', handleRequestFromIdle a f ctrl func objects raw = some (a', last.series) ∧
      a'.2 = a.2 ++ (match last.response with
        | some r => [.tx f.src ((writeAt a.1.solBuf 0 (respHeader r)).take (max 4 r.size))]
        | none => []) ∧
      a'.1 = { rebased a.1 f ctrl func raw with
                solBuf := match last.response with
                  | some r => writeAt a.1.solBuf 0 (respHeader r)
                  | none => a.1.solBuf } ∧
      a'.1.lastReq = a.1.lastReq ∧ a'.1.lastBroadcast = a.1.lastBroadcast ∧ a'.1.restart = a.1.restart ∧
      a'.1.db = a.1.db ∧ a'.1.deferred = a.1.deferred ∧ a'.1.mode = a.1.mode ∧
      ∀ o ∈ a'.2, o ∈ a.2 ∨ isExec o = false :=
  @Dnp3.Proofs.C05.repeat_nonread_idle a f ctrl func objects raw last hr

/-- **C05.2 (`repeat_nonread_same_bytes_idle`)**: PROVIDED the solicited buffer still is what the original
    transmission left (`solBuf = writeAt b0 0 (respHeader r)`, `b0` the buffer the response `r` was originally sent
    from by `repeatSolicited`/`writeSolicited`), the octets re-sent from idle are byte-for-byte the octets sent
    originally; the buffer and the stored request are left as they were, so the statement applies again to a
    further repeat. -/
theorem repeat_nonread_same_bytes_idle {a : Acc} {f : Frag} {ctrl : AppCtrl} {func : Nat}
    {objects : Except Nat (List ObjHdr)} {raw : List Nat} {last : LastReq} (r : Resp)
    (b0 : List Nat) (a00 : Acc) (dst0 : Nat)
    (hr : IsRepeat a.1 f ctrl func objects last) (hresp : last.response = some r)
    (horig : a00.1.solBuf = b0)                                
    (hbuf : a.1.solBuf = (repeatSolicited a00 dst0 r).1.solBuf) : ∃ bytes a', (repeatSolicited a00 dst0 r).2 = a00.2 ++ [.tx dst0 bytes] ∧
        handleRequestFromIdle a f ctrl func objects raw = some (a', last.series) ∧
        a'.2 = a.2 ++ [.tx f.src bytes] ∧ a'.1.solBuf = a.1.solBuf ∧ a'.1.lastReq = a.1.lastReq :=
  @Dnp3.Proofs.C05.repeat_nonread_same_bytes_idle a f ctrl func objects raw last r b0 a00 dst0 hr hresp horig hbuf

/-- **D14 regression** (this EVALUATES the model including the current `Db` component): the repeat is answered
    with the SAME octets as the original request (IIN1 = 0x80 both times; before the repair the broadcast bit
    IIN1.0 was OR-ed into the repeated response, 0x81), and nothing is executed. -/
theorem repeat_nonread_idle_verbatim_example :
    (Outstation.run {} (Outstation.start {} 10).1 d14Inputs).2.map txFrags =
      [[(1, [192, 129, 128, 0, 52, 2, 7, 1, 0, 0])], [], [(1, [192, 129, 128, 0, 52, 2, 7, 1, 0, 0])]] ∧
    (Outstation.run {} (Outstation.start {} 10).1 d14Inputs).2.map (fun l => (l.filter isExec).length) = [0, 0, 0] :=
  @Dnp3.Proofs.C05.repeat_nonread_idle_verbatim_example

/-- **`repeat_malformed_reanswered_counterexample` (finding D31)**: the C05.2 statements above are about repeats
    whose objects parse (`IsRepeat.objectsOk`).  A byte-identical repeat of a request whose OBJECTS do not parse is
    classified `.malformed` before the duplicate check (`repeat_malformed_not_classified`), so it is answered
    afresh: the second reply carries the CURRENT IIN1 (0x81: the broadcast bit) where the original carried 0x80.
    Nothing is executed either time. -/
theorem repeat_malformed_reanswered_counterexample :
    (Outstation.run {} (Outstation.start {} 10).1 d27Inputs).2.map txFrags =
      [[(1, [192, 129, 128, 4])], [], [(1, [192, 129, 129, 4])]] ∧
    (Outstation.run {} (Outstation.start {} 10).1 d27Inputs).2.map (fun l => (l.filter isExec).length) = [0, 0, 0] :=
  @Dnp3.Proofs.C05.repeat_malformed_reanswered_counterexample

/-- exact characterisation of finding D31: whatever the last recorded request is, a unicast non-CONFIRM fragment
    whose objects do not parse is classified `.malformed` — never as a repeat -/
theorem repeat_malformed_not_classified (s : OState) (f : Frag) (ctrl : AppCtrl) (func : Nat) (e : Nat)
    (hf : func ≠ 0) (hb : f.broadcast = none) :
    classify s f ctrl func (.error e) = .malformed e :=
  @Dnp3.Proofs.C05.repeat_malformed_not_classified s f ctrl func e hf hb

/-- **C05.3 (`unsol_retry_identical`)**: a retry after the unsolicited confirm timeout transmits the stored
    header over the current unsolicited buffer; PROVIDED `unsolBuf` still is what the original
    transmission (`repeatUnsolicited a00 resp`) left, the retry is byte-for-byte the original fragment. -/
theorem unsol_retry_identical (a : Acc) (resp : Resp) (isNull : Bool) (n : Option Nat) (a00 : Acc)
    (hretry : n ≠ some 0) (hd : a.1.deferred = none)
    (hbuf : a.1.unsolBuf = (repeatUnsolicited a00 resp).1.unsolBuf) :
    ∃ bytes a', (repeatUnsolicited a00 resp).2 = a00.2 ++ [.tx a00.1.cfg.master bytes] ∧
      unsolWaitTimeout a resp isNull n = .blocked a' ∧
      a'.2 = a.2 ++ [.cb (.unsolTimeout resp.ctrl.seq true), .tx a.1.cfg.master bytes] ∧
      a'.1.unsolBuf = a.1.unsolBuf :=
  @Dnp3.Proofs.C05.unsol_retry_identical a resp isNull n a00 hretry hd hbuf

/-- **C05.3 (invariant)**: a fragment handled during the unsolicited confirm wait never touches `unsolBuf`:
    either the series ends (`finishUnsol`, entered with `unsolBuf` unchanged) or the task blocks again (or
    dies) with `unsolBuf` — and, unless it died, the wait mode — unchanged. -/
theorem unsolWaitOnFragment_keeps_unsolBuf (a : Acc) (resp : Resp) (isNull : Bool) :
    (∃ a1 c, unsolWaitOnFragment a resp isNull = finishUnsol a1 isNull c ∧ a1.1.unsolBuf = a.1.unsolBuf) ∨
    KeepsUnsol a (accOf (unsolWaitOnFragment a resp isNull)) :=
  @Dnp3.Proofs.C05.unsolWaitOnFragment_keeps_unsolBuf a resp isNull

/-- **C05.4 (`resend_is_stored_fragment`)**: a READ repeated during the solicited confirm wait
    (same sequence number and bytes as the last recorded request) is answered by `repeatSolicited` of the
    STORED response header over the CURRENT solicited buffer.  PROVIDED the buffer still is what the
    transmission of that stored response left, the echo is byte-for-byte that fragment; the buffer and the
    stored request are left as they were, so the statement applies again to a further repeat.

    (Since the repair of defect D5 the stored response is the fragment awaiting confirmation for EVERY
    fragment of a series — `continuation_is_stored` — so the proviso holds throughout the confirm wait:
    `resend_is_awaited_fragment`.) -/
theorem resend_is_stored_fragment {a : Acc} {f : Frag} {ctrl : AppCtrl}
    {objects : Except Nat (List ObjHdr)} {raw : List Nat} {last : LastReq} {hs : List ObjHdr} {r : Resp}
    (series : Series) (deadline : Nat) (cont : SolCont) (a00 : Acc) (dst0 : Nat)
    (hp : a.1.pending = some f) (hq : parseRequest f.data = .request ctrl 1 objects raw)
    (hm : a.1.cfg.anymaster = true ∨ f.src = a.1.cfg.master)
    (hl : a.1.lastReq = some last) (hseq : last.seq = ctrl.seq) (hfrag : last.frag = f.data)
    (hu : f.broadcast = none) (hobj : objects = .ok hs) (hresp : last.response = some r)
    (hbuf : a.1.solBuf = (repeatSolicited a00 dst0 r).1.solBuf) :
    ∃ bytes a', (repeatSolicited a00 dst0 r).2 = a00.2 ++ [.tx dst0 bytes] ∧
      solWaitOnFragment a series deadline cont = .blocked a' ∧
      a'.2 = a.2 ++ [.tx f.src bytes] ∧ a'.1.solBuf = a.1.solBuf ∧ a'.1.lastReq = a.1.lastReq :=
  @Dnp3.Proofs.C05.resend_is_stored_fragment a f ctrl objects raw last hs r series deadline cont a00 dst0 hp hq hm hl hseq hfrag hu hobj hresp hbuf

/-- **C05.4 (`continuation_is_stored`, the D5 repair)**: a matching CONFIRM on a non-final fragment of a
    response series: either the IIN cannot be computed and the task dies (`writeSolicited … = none`, i.e.
    `unwrittenClasses = none`, defect D3 — nothing to do with D5), or the next fragment is transmitted exactly
    as `repeatSolicited a00 f.src r2` would for some accumulator `a00` and response record `r2`, and the
    session continues (resumes the idle pass if no confirmation is needed, else blocks in the confirm wait of
    that fragment) from an accumulator `a2` whose stored response is `r2` and whose solicited buffer is what
    that transmission left. -/
theorem continuation_is_stored {a : Acc} {f : Frag} {ctrl : AppCtrl} {objects : Except Nat (List ObjHdr)}
    {raw : List Nat} (series : Series) (dl : Nat) (cont : SolCont)
    (hp : a.1.pending = some f) (hq : parseRequest f.data = .request ctrl 0 objects raw)
    (hm : a.1.cfg.anymaster = true ∨ f.src = a.1.cfg.master)
    (hu : ctrl.uns = false) (hs : ctrl.seq = series.ecsn) (hfin : series.fin = false) :
    (∃ a1, solWaitOnFragment a series dl cont = die a1) ∨
    ∃ (a00 : Acc) (r2 : Resp) (bytes : List Nat) (a2 : Acc) (next : Option Series),
      (repeatSolicited a00 f.src r2).2 = a00.2 ++ [.tx f.src bytes] ∧
      a2.2 = a00.2 ++ [.tx f.src bytes] ∧
      a2.1.solBuf = (repeatSolicited a00 f.src r2).1.solBuf ∧
      a2.1.lastReq = a.1.lastReq.map (fun lr => { lr with response := some r2 }) ∧
      solWaitOnFragment a series dl cont =
        (match next with
         | none => resumeAfterSol a2 cont
         | some sr => .blocked ({ a2.1 with mode := .solWait sr (a2.1.now + a2.1.cfg.ctimeout) cont }, a2.2)) :=
  @Dnp3.Proofs.C05.continuation_is_stored a f ctrl objects raw series dl cont hp hq hm hu hs hfin

/-- **C05.4 (`resend_is_awaited_fragment`, full statement)**: a READ repeated during the confirm wait of ANY
    fragment of a response series re-sends exactly that fragment's octets.  After a matching CONFIRM on a
    non-final fragment (and unless the task died, as in `continuation_is_stored`) the pass up to `a2` emitted
    callbacks only (`l`) and then transmitted the continuation fragment `bytes`; the session continues from `a2`
    as in `continuation_is_stored` (with `next = some sr` it blocks in the confirm wait of that fragment); and in
    EVERY later accumulator `b` that still has `a2`'s solicited buffer and stored request, a READ `f'` that
    repeats the last recorded request is answered — whatever series/deadline/continuation the wait carries —
    by re-transmitting exactly `bytes`, leaving buffer and stored request untouched (so the same holds for the
    next repeat). -/
theorem resend_is_awaited_fragment {a : Acc} {f : Frag} {ctrl : AppCtrl} {objects : Except Nat (List ObjHdr)}
    {raw : List Nat} {last : LastReq} (series : Series) (dl : Nat) (cont : SolCont)
    (hp : a.1.pending = some f) (hq : parseRequest f.data = .request ctrl 0 objects raw)
    (hm : a.1.cfg.anymaster = true ∨ f.src = a.1.cfg.master)
    (hu : ctrl.uns = false) (hs : ctrl.seq = series.ecsn) (hfin : series.fin = false)
    (hl : a.1.lastReq = some last) :
    (∃ a1, solWaitOnFragment a series dl cont = die a1) ∨
    ∃ (bytes : List Nat) (a2 : Acc) (next : Option Series),
      (∃ l, a2.2 = a.2 ++ l ++ [.tx f.src bytes] ∧ ∀ o ∈ l, ∃ c, o = OOut.cb c) ∧
      solWaitOnFragment a series dl cont =
        (match next with
         | none => resumeAfterSol a2 cont
         | some sr => .blocked ({ a2.1 with mode := .solWait sr (a2.1.now + a2.1.cfg.ctimeout) cont }, a2.2)) ∧
      ∀ (b : Acc) (f' : Frag) (ctrl' : AppCtrl) (hs' : List ObjHdr) (raw' : List Nat)
        (series' : Series) (deadline' : Nat) (cont' : SolCont),
        b.1.solBuf = a2.1.solBuf → b.1.lastReq = a2.1.lastReq →
        b.1.pending = some f' → parseRequest f'.data = .request ctrl' 1 (.ok hs') raw' →
        (b.1.cfg.anymaster = true ∨ f'.src = b.1.cfg.master) → f'.broadcast = none →
        last.seq = ctrl'.seq → last.frag = f'.data →
        ∃ b', solWaitOnFragment b series' deadline' cont' = .blocked b' ∧
          b'.2 = b.2 ++ [.tx f'.src bytes] ∧ b'.1.solBuf = b.1.solBuf ∧ b'.1.lastReq = b.1.lastReq :=
  @Dnp3.Proofs.C05.resend_is_awaited_fragment a f ctrl objects raw last series dl cont hp hq hm hu hs hfin hl

end Dnp3.Props.C05
