import Dnp3.Proofs.PanicClass
import Dnp3.Proofs.NoPanicLink
import Dnp3.Proofs.NoPanicOutstation
import Dnp3.Proofs.NoPanicOutstationDb
/-!
# C01 — Bytes from the peer can never crash or wedge a master or an outstation

"Whatever bytes a remote peer sends, in whatever chunking and in whatever protocol state, to a
master or an outstation - at any decode/log level and with any legal buffer-size configuration -
the endpoint's task never panics (including arithmetic overflow), never spins or stalls, and either
keeps serving (a following well-formed request is handled normally) or, where the configured link
error mode says so, ends that session cleanly and serves the next one."

Three kinds of obligations (outstation role and the shared link / transport / parse layers; the
master role is the master engine's):

1. **Panic-site inventory** (translator tie).  `Gen.panicSites` is regenerated from the source on
   every run (tools/gen_panic_sites.py): every `unwrap` / `expect` / panic-family macro / index
   expression / panicking slice call / arithmetic operator of the non-test code of C01's anchor
   files (+ the peer-reachable helper modules they call).  `classified` below is the HAND-WRITTEN
   classification of every site, made by reading the site; `all_sites_classified` proves that no
   generated site is missing from it.  A new panicking construct in those files produces a key
   that is not in the table and breaks the obligation.
2. **No-panic / no-spin theorems** over the models (the models are total functions in which Rust
   panics are explicit values, so "no panic" is a statement and "no spin" is: no loop depends on
   its fuel).  Proofs in `Proofs/NoPanicLink.lean`, `Proofs/NoPanicOutstation.lean` and
   `Proofs/NoPanicOutstationDb.lean`.
3. No exception is left on the outstation side: `outstation_step_no_panic` holds for every state of every
   trace from construction and every input.  Repaired: D1 (OPERATE echo larger than the solicited buffer:
   `handle_operate` keeps the `Result` of its echo writers like `handle_select` / `handle_direct_operate`; the
   former witness is answered, `outstation_former_d1_witness_answered`), D2 (`RangedBytesIterator` index
   overflow, `fix:` 320622f) and D3 (event-counter underflow: `EventBuffer::insert` now takes a discarded
   `Written` record out of `written` too; `no_counter_underflow`); regression corpus for all three.
-/
namespace Dnp3.Props.C01
open Dnp3 Dnp3.App Dnp3.Proofs.NoPanicLink Dnp3.Proofs.NoPanicOutstation Dnp3.PanicInventory

/-! ## 1. panic-site inventory -/

/-- The classification.  One line of justification per site; produced by reading each site in
    the Rust source (unchanged tree).  `python3 tools/gen_panic_sites.py` prints the inventory
    with line numbers for whoever has to extend it. -/
def classified : List Entry := [
  -- link/parser.rs
  ⟨3807060755051516831, "link/parser.rs|FramePayload::get|index|&self.buffer[0..self.length]|0",
    .cannotFail "FramePayload.length only grows in push() after np_get_mut(length..length+n) succeeded, so length <= 250 = buffer size"⟩,
  ⟨5238981831316108664, "link/parser.rs|FramePayload::push|arith|let dest = buff.np_get_mut(self.length..self.length + data.len())?;|0",
    .cannotFail "length <= 250 and data.len() <= 16 (one CRC block): usize addition far from overflow; the range itself is checked by np_get_mut (error, not panic)"⟩,
  ⟨470157485628353806, "link/parser.rs|FramePayload::push|call|dest.copy_from_slice(data);|0",
    .cannotFail "dest is the sub-slice length..length+data.len(): same length as data by construction"⟩,
  ⟨11591749515403122812, "link/parser.rs|FramePayload::push|arith|self.length += data.len();|0",
    .cannotFail "only reached after np_get_mut accepted length+data.len() <= 250"⟩,
  ⟨12296436411710567350, "link/parser.rs|Parser::calc_trailer_length|arith|let div16: usize = data_length as usize / constant::MAX_BLOCK_SIZE;|0",
    .cannotFail "division / remainder by the non-zero constant MAX_BLOCK_SIZE = 16"⟩,
  ⟨7930543168475520003, "link/parser.rs|Parser::calc_trailer_length|arith|let mod16: usize = data_length as usize % constant::MAX_BLOCK_SIZE;|0",
    .cannotFail "division / remainder by the non-zero constant MAX_BLOCK_SIZE = 16"⟩,
  ⟨11455559789611495133, "link/parser.rs|Parser::calc_trailer_length|arith|div16 * constant::MAX_BLOCK_SIZE_WITH_CRC|0",
    .cannotFail "data_length is a u8: div16 <= 15, result <= 15*18+15+2 = 287 in usize (modelled: calcTrailerLength, Proofs.LinkReader.calcTrailerLength_le)"⟩,
  ⟨5373680821981674908, "link/parser.rs|Parser::calc_trailer_length|arith|(div16 * constant::MAX_BLOCK_SIZE_WITH_CRC) + mod16 + constant::CRC_LENGTH|0",
    .cannotFail "data_length is a u8: div16 <= 15, result <= 15*18+15+2 = 287 in usize (modelled: calcTrailerLength, Proofs.LinkReader.calcTrailerLength_le)"⟩,
  ⟨5373681921493303119, "link/parser.rs|Parser::calc_trailer_length|arith|(div16 * constant::MAX_BLOCK_SIZE_WITH_CRC) + mod16 + constant::CRC_LENGTH|1",
    .cannotFail "data_length is a u8: div16 <= 15, result <= 15*18+15+2 = 287 in usize (modelled: calcTrailerLength, Proofs.LinkReader.calcTrailerLength_le)"⟩,
  ⟨5373683021004931330, "link/parser.rs|Parser::calc_trailer_length|arith|(div16 * constant::MAX_BLOCK_SIZE_WITH_CRC) + mod16 + constant::CRC_LENGTH|2",
    .cannotFail "data_length is a u8: div16 <= 15, result <= 15*18+15+2 = 287 in usize (modelled: calcTrailerLength, Proofs.LinkReader.calcTrailerLength_le)"⟩,
  ⟨15813380097392263417, "link/parser.rs|Parser::parse_header|arith|let trailer_length = Self::calc_trailer_length(len - 5);|0",
    .cannotFail "guarded three lines above by `if len < 5 { return Err(BadLength) }` (modelled: parseHeader)"⟩,
  ⟨2569412818115770492, "link/parser.rs|Parser::parse_body|arith|let data_len = block.len() - 2;|0",
    .cannotFail "guarded by `if block.len() < 3 { return Err(BadSize) }` (modelled: checkBody)"⟩,
  -- link/reader.rs
  ⟨12666120231284939945, "link/reader.rs|num_link_frames|arith|let full_link_frames = fragment_size / link::constant::MAX_APP_BYTES_PER_FRAME;|0",
    .notPeerReachable "const fn on the configured rx buffer size, evaluated at construction; division by the constant 249"⟩,
  ⟨15176722692765574303, "link/reader.rs|num_link_frames|arith|if fragment_size % link::constant::MAX_APP_BYTES_PER_FRAME == 0 {|0",
    .notPeerReachable "const fn on the configured rx buffer size, evaluated at construction; division by the constant 249"⟩,
  ⟨325389602086435679, "link/reader.rs|num_link_frames|arith|full_link_frames + 1|0",
    .notPeerReachable "const fn on the configured rx buffer size (BufferSize <= 2048 -> at most 9*292+1), evaluated at construction"⟩,
  ⟨10048095785069917808, "link/reader.rs|read_buffer_size|arith|num_frames * link::constant::MAX_LINK_FRAME_LENGTH|0",
    .notPeerReachable "const fn on the configured rx buffer size (BufferSize <= 2048 -> at most 9*292+1), evaluated at construction"⟩,
  ⟨10989940194746184472, "link/reader.rs|read_buffer_size|arith|size + 1|0",
    .notPeerReachable "const fn on the configured rx buffer size (BufferSize <= 2048 -> at most 9*292+1), evaluated at construction"⟩,
  ⟨13215125243971278051, "link/reader.rs|ReadBuffer::shift_unread_bytes|arith|self.end -= self.begin;|0",
    .modelled "Dnp3.Props.C01.link_reader_buffer_invariant"⟩,
  ⟨11372313148771744447, "link/reader.rs|ReadBuffer::writable|index|self.buffer[self.end..].as_mut()|0",
    .modelled "Dnp3.Props.C01.link_reader_buffer_invariant"⟩,
  ⟨9598146176293752945, "link/reader.rs|ReadBuffer::readable|index|self.buffer[self.begin..self.end].as_ref()|0",
    .modelled "Dnp3.Props.C01.link_reader_buffer_invariant"⟩,
  ⟨2819869932810828309, "link/reader.rs|ReadBuffer::advance_write|arith|self.end += count;|0",
    .modelled "Dnp3.Props.C01.link_reader_buffer_invariant"⟩,
  ⟨12229279695234053310, "link/reader.rs|ReadBuffer::advance_read|arith|self.begin += count;|0",
    .modelled "Dnp3.Props.C01.link_reader_buffer_invariant"⟩,
  ⟨9529611901444791083, "link/reader.rs|ReadBuffer::num_bytes_unread|arith|self.end - self.begin|0",
    .modelled "Dnp3.Props.C01.link_reader_buffer_invariant"⟩,
  -- transport/real/assembler.rs
  ⟨4474619802367335748, "transport/real/assembler.rs|Assembler::peek|expect|.expect(\"tracking size greater than buffer size\");|0",
    .modelled "Dnp3.Props.C01.transport_no_panic"⟩,
  ⟨915219422051606090, "transport/real/assembler.rs|Assembler::pop|expect|.expect(\"tracking size greater than buffer size\");|0",
    .modelled "Dnp3.Props.C01.transport_no_panic"⟩,
  ⟨5802156556514683286, "transport/real/assembler.rs|Assembler::append|arith|let new_length = acc_length + data.len();|0",
    .cannotFail "acc_length <= buffer size <= 2048 (assembler invariant, Dnp3.Props.C01.transport_no_panic) and data.len() <= 249: usize addition cannot overflow"⟩,
  ⟨17961820045524477350, "transport/real/assembler.rs|Assembler::append|expect|.expect(\"accumulated length is greater than the buffer size\");|0",
    .modelled "Dnp3.Props.C01.transport_no_panic"⟩,
  -- app/parse/bytes.rs
  ⟨18253301003319400014, "app/parse/bytes.rs|RangedBytesSequence::parse|arith|bytes: cursor.read_bytes(variation as usize * count)?,|0",
    .cannotFail "variation is a u8 and count <= 65536 (Range::count): product < 2^24 in usize"⟩,
  ⟨2920238119271707184, "app/parse/bytes.rs|PrefixedBytesSequence::parse|arith|let size = (variation as usize + T::SIZE as usize) * count as usize;|0",
    .cannotFail "(255 + 2) * 65535 < 2^25 in usize"⟩,
  ⟨2920239218783335395, "app/parse/bytes.rs|PrefixedBytesSequence::parse|arith|let size = (variation as usize + T::SIZE as usize) * count as usize;|1",
    .cannotFail "(255 + 2) * 65535 < 2^25 in usize"⟩,
  ⟨18056657054454993782, "app/parse/bytes.rs|RangedBytesIterator::next|arith|self.index += 1;|0",
    .modelled "Dnp3.Props.C01.iter_no_panic"⟩,
  ⟨16525779224071103624, "app/parse/bytes.rs|RangedBytesIterator::next|arith|self.remaining -= 1;|0",
    .cannotFail "guarded by `if self.remaining == 0 { return None }` at the top of next()"⟩,
  ⟨3579415639492225374, "app/parse/bytes.rs|PrefixedBytesIterator::next|arith|self.remaining -= 1;|0",
    .cannotFail "guarded by `if self.remaining == 0 { return None }` at the top of next()"⟩,
  -- app/parse/bit.rs
  ⟨11274806510928485147, "app/parse/bit.rs|BitIterator::next|arith|let byte = self.pos / 8;|0",
    .cannotFail "division / remainder by a non-zero literal"⟩,
  ⟨10136954743875432880, "app/parse/bit.rs|BitIterator::next|arith|let bit = (self.pos % 8) as u8;|0",
    .cannotFail "division / remainder by a non-zero literal"⟩,
  ⟨8613688861053436595, "app/parse/bit.rs|BitIterator::next|arith|self.pos += 1;|0",
    .cannotFail "reached only when pos < count <= 65536 (usize)"⟩,
  ⟨9748120647840567409, "app/parse/bit.rs|BitIterator::next|arith|self.index += 1;|0",
    .modelled "Dnp3.Props.C01.iter_no_panic"⟩,
  ⟨12598748669258966555, "app/parse/bit.rs|BitIterator::size_hint|arith|let count = self.count - self.pos;|0",
    .cannotFail "pos is incremented only while pos < count, so pos <= count"⟩,
  ⟨1158338633521101354, "app/parse/bit.rs|DoubleBitIterator::next|arith|let byte = self.pos / 4;|0",
    .cannotFail "division / remainder by a non-zero literal"⟩,
  ⟨10206121065901006612, "app/parse/bit.rs|DoubleBitIterator::next|arith|let shift = 2 * (self.pos % 4) as u8;|0",
    .cannotFail "(pos % 4) <= 3, so 2 * that <= 6 in u8"⟩,
  ⟨10206122165412634823, "app/parse/bit.rs|DoubleBitIterator::next|arith|let shift = 2 * (self.pos % 4) as u8;|1",
    .cannotFail "(pos % 4) <= 3, so 2 * that <= 6 in u8"⟩,
  ⟨12741737722389169314, "app/parse/bit.rs|DoubleBitIterator::next|arith|self.pos += 1;|0",
    .cannotFail "reached only when pos < count <= 65536 (usize)"⟩,
  ⟨6073363619832693980, "app/parse/bit.rs|DoubleBitIterator::next|arith|self.index += 1;|0",
    .modelled "Dnp3.Props.C01.iter_no_panic"⟩,
  ⟨7840199538604929320, "app/parse/bit.rs|DoubleBitIterator::size_hint|arith|let count = self.count - self.pos;|0",
    .cannotFail "pos is incremented only while pos < count, so pos <= count"⟩,
  -- app/parse/range.rs
  ⟨10497304588360041706, "app/parse/range.rs|Range::from|arith|count: stop as usize - start as usize + 1,|0",
    .cannotFail "`if stop < start { return Err }` precedes; stop - start + 1 <= 65536 in usize"⟩,
  ⟨10497305687871669917, "app/parse/range.rs|Range::from|arith|count: stop as usize - start as usize + 1,|1",
    .cannotFail "`if stop < start { return Err }` precedes; stop - start + 1 <= 65536 in usize"⟩,
  ⟨2190040945783957450, "app/parse/range.rs|RangedSequence::parse|arith|let num_bytes = T::SIZE as usize * range.count;|0",
    .cannotFail "SIZE is a u8 and count <= 65536: product < 2^24 in usize"⟩,
  -- app/attr.rs
  ⟨5010995348304410411, "app/attr.rs|AttrValue::parse|arith|let len = len as u16 + 256;|0",
    .cannotFail "len is a u8 widened to u16: at most 255 + 256 = 511"⟩,
  ⟨6579402504035627603, "app/attr.rs|AttrValue::parse_attr_list|arith|if len % 2 != 0 {|0",
    .cannotFail "remainder by the literal 2"⟩,
  -- outstation/session.rs
  ⟨14584061169224622313, "outstation/session.rs|RetryCounter::decrement|arith|self.retries = Some(x - 1);|0",
    .cannotFail "inside `if x == 0 {..} else {..}`: x >= 1 (modelled: unsolWaitTimeout)"⟩,
  ⟨16180221405612582719, "outstation/session.rs|OutstationSession::new|arith|.map(|delay| tokio::time::Instant::now() + delay);|0",
    .notPeerReachable "tokio Instant + configured Duration (keep-alive timeout / unsolicited retry delay): configuration values, no peer octet flows into them"⟩,
  ⟨3521502236005505756, "outstation/session.rs|OutstationSession::repeat_unsolicited|unwrap|self.unsol_tx_buffer.get(len).unwrap(),|0",
    .cannotFail "len = max(4, response.size) where response.size was cursor.written().len() of the same tx buffer (>= 249 octets): get(len) is Some (modelled: repeatSolicited / repeatUnsolicited take `buf.take len`)"⟩,
  ⟨14171960156873176696, "outstation/session.rs|OutstationSession::repeat_solicited|unwrap|self.sol_tx_buffer.get(len).unwrap(),|0",
    .cannotFail "len = max(4, response.size) where response.size was cursor.written().len() of the same tx buffer (>= 249 octets): get(len) is Some (modelled: repeatSolicited / repeatUnsolicited take `buf.take len`)"⟩,
  ⟨10660676711384924138, "outstation/session.rs|OutstationSession::handle_delay_measure|unwrap|writer.write_count_of_one(g52v2).unwrap();|0",
    .cannotFail "one count-of-one g52 object (4 + 3 + 1 + 2 = 10 octets) into a solicited buffer of at least 249 octets (BufferSize::MIN)"⟩,
  ⟨3761973965013362207, "outstation/session.rs|OutstationSession::handle_restart|unwrap|.unwrap();|0",
    .cannotFail "one count-of-one g52 object (4 + 3 + 1 + 2 = 10 octets) into a solicited buffer of at least 249 octets (BufferSize::MIN)"⟩,
  ⟨3761972865501733996, "outstation/session.rs|OutstationSession::handle_restart|unwrap|.unwrap();|1",
    .cannotFail "one count-of-one g52 object (4 + 3 + 1 + 2 = 10 octets) into a solicited buffer of at least 249 octets (BufferSize::MIN)"⟩,
  ⟨7133588084577880745, "outstation/session.rs|OutstationSession::new_unsolicited_retry_deadline|arith|tokio::time::Instant::now() + self.config.unsolicited_retry_delay|0",
    .notPeerReachable "tokio Instant + configured Duration (keep-alive timeout / unsolicited retry delay): configuration values, no peer octet flows into them"⟩,
  ⟨12062078765128114833, "outstation/session.rs|OutstationSession::on_link_activity|arith|.map(|timeout| tokio::time::Instant::now() + timeout);|0",
    .notPeerReachable "tokio Instant + configured Duration (keep-alive timeout / unsolicited retry delay): configuration values, no peer octet flows into them"⟩,
  -- outstation/control/collection.rs
  ⟨11906242098320282647, "outstation/control/collection.rs|select_header_with_response|arith|*num_controls += 1;|0",
    .cannotFail "usize counter of control objects in ONE request fragment (<= rx buffer size / 4 objects)"⟩,
  ⟨16147381315210655641, "outstation/control/collection.rs|operate_header_with_response|arith|*num_controls += 1;|0",
    .cannotFail "usize counter of control objects in ONE request fragment (<= rx buffer size / 4 objects)"⟩,
  ⟨10894455898977512418, "outstation/control/collection.rs|operate_header_no_ack|arith|*num_controls += 1;|0",
    .cannotFail "usize counter of control objects in ONE request fragment (<= rx buffer size / 4 objects)"⟩,
  -- outstation/database/details/event/buffer.rs
  ⟨17614748597320251592, "outstation/database/details/event/buffer.rs|Count::subtract|arith|value: self.value - other.value,|0",
    .modelled "Dnp3.Props.C01.no_counter_underflow"⟩,
  ⟨16230468875009351846, "outstation/database/details/event/buffer.rs|Count::increment|arith|self.value += 1;|0",
    .cannotFail "usize count of events held per class / type: bounded by the configured buffer sizes (u16 each)"⟩,
  ⟨13793723387269476396, "outstation/database/details/event/buffer.rs|Count::decrement|arith|self.value -= 1;|0",
    .cannotFail "called only for a record that is being removed from the list: on `total`, which counts the records in the list (>= 1), and (since the repair of D3, in EventBuffer::insert) on `written` only when the removed record is Written, which `written` counts (>= 1) (modelled: Dnp3.Props.Db.discard_decrements_no_underflow, Dnp3.Props.Db.counters_exact)"⟩,
  ⟨10237107360862332229, "outstation/database/details/event/buffer.rs|EventBuffer::insert|arith|self.next += 1;|0",
    .cannotFail "u64 event id: 2^64 insertions"⟩,
  ⟨16911464063772489611, "outstation/database/details/event/buffer.rs|EventBuffer::write_events|arith|count += 1;|0",
    .cannotFail "usize loop counter bounded by the number of stored events"⟩,
  ⟨13209512251926144434, "outstation/database/details/event/buffer.rs|EventBuffer::select|arith|count += 1;|0",
    .cannotFail "usize loop counter bounded by the number of stored events"⟩,
  -- master/association.rs
  ⟨4198987275041778665, "master/association.rs|AutoTaskState::failure|arith|Self::Failed(backoff.clone(), Instant::now() + delay)|0",
    .notPeerReachable "Instant + back-off delay bounded by the configured retry strategy (master configuration; master role is covered by the master engine)"⟩,
  ⟨17800554782521471733, "master/association.rs|AutoTaskState::failure|arith|Self::Failed(backoff, Instant::now() + delay)|0",
    .notPeerReachable "Instant + back-off delay bounded by the configured retry strategy (master configuration; master role is covered by the master engine)"⟩,
  ⟨15795052552842880550, "master/association.rs|Association::new|arith|next_link_status_deadline: config.keep_alive_timeout.map(|delay| now + delay),|0",
    .notPeerReachable "Instant + configured keep-alive timeout (master configuration)"⟩,
  ⟨11036248780006299349, "master/association.rs|Association::on_link_activity|arith|.map(|timeout| Instant::now() + timeout)|0",
    .notPeerReachable "Instant + configured keep-alive timeout (master configuration)"⟩,
  -- link/format.rs
  ⟨7624813319491707889, "link/format.rs|format_header_fixed_size|index|buffer[0] = constant::START1;|0",
    .cannotFail "constant index < 10 into `&mut [u8; LINK_HEADER_LENGTH]` (LINK_HEADER_LENGTH = 10), checked by rustc for array types"⟩,
  ⟨11852395761527032687, "link/format.rs|format_header_fixed_size|index|buffer[1] = constant::START2;|0",
    .cannotFail "constant index < 10 into `&mut [u8; LINK_HEADER_LENGTH]` (LINK_HEADER_LENGTH = 10), checked by rustc for array types"⟩,
  ⟨4770724976918290993, "link/format.rs|format_header_fixed_size|index|buffer[2] = 5;|0",
    .cannotFail "constant index < 10 into `&mut [u8; LINK_HEADER_LENGTH]` (LINK_HEADER_LENGTH = 10), checked by rustc for array types"⟩,
  ⟨2911799893992919011, "link/format.rs|format_header_fixed_size|index|buffer[3] = header.control.to_u8();|0",
    .cannotFail "constant index < 10 into `&mut [u8; LINK_HEADER_LENGTH]` (LINK_HEADER_LENGTH = 10), checked by rustc for array types"⟩,
  ⟨3625321716730088381, "link/format.rs|format_header_fixed_size|index|buffer[4] = d1;|0",
    .cannotFail "constant index < 10 into `&mut [u8; LINK_HEADER_LENGTH]` (LINK_HEADER_LENGTH = 10), checked by rustc for array types"⟩,
  ⟨4931399729623687859, "link/format.rs|format_header_fixed_size|index|buffer[5] = d2;|0",
    .cannotFail "constant index < 10 into `&mut [u8; LINK_HEADER_LENGTH]` (LINK_HEADER_LENGTH = 10), checked by rustc for array types"⟩,
  ⟨16029474365421029538, "link/format.rs|format_header_fixed_size|index|buffer[6] = s1;|0",
    .cannotFail "constant index < 10 into `&mut [u8; LINK_HEADER_LENGTH]` (LINK_HEADER_LENGTH = 10), checked by rustc for array types"⟩,
  ⟨392808578541245340, "link/format.rs|format_header_fixed_size|index|buffer[7] = s2;|0",
    .cannotFail "constant index < 10 into `&mut [u8; LINK_HEADER_LENGTH]` (LINK_HEADER_LENGTH = 10), checked by rustc for array types"⟩,
  ⟨10719147567330668124, "link/format.rs|format_header_fixed_size|index|let (c1, c2) = to_le(calc_crc(&buffer[0..8]));|0",
    .cannotFail "constant index < 10 into `&mut [u8; LINK_HEADER_LENGTH]` (LINK_HEADER_LENGTH = 10), checked by rustc for array types"⟩,
  ⟨16967596800532462644, "link/format.rs|format_header_fixed_size|index|buffer[8] = c1;|0",
    .cannotFail "constant index < 10 into `&mut [u8; LINK_HEADER_LENGTH]` (LINK_HEADER_LENGTH = 10), checked by rustc for array types"⟩,
  ⟨13071398527317222226, "link/format.rs|format_header_fixed_size|index|buffer[9] = c2;|0",
    .cannotFail "constant index < 10 into `&mut [u8; LINK_HEADER_LENGTH]` (LINK_HEADER_LENGTH = 10), checked by rustc for array types"⟩,
  ⟨8137305827930858733, "link/format.rs|format_frame::format_payload|arith|.np_split_at_no_error(constant::MAX_BLOCK_SIZE - 1);|0",
    .cannotFail "constants: MAX_BLOCK_SIZE - 1 = 15"⟩,
  ⟨17977029768937546828, "link/format.rs|format_frame|arith|payload.app_data.len() as u8 + constant::MIN_HEADER_LENGTH_VALUE + 1|0",
    .cannotFail "guarded by `if payload.app_data.len() > MAX_APP_BYTES_PER_FRAME (249) { return Err }`: 249 + 5 + 1 = 255 fits u8"⟩,
  ⟨17977030868449175039, "link/format.rs|format_frame|arith|payload.app_data.len() as u8 + constant::MIN_HEADER_LENGTH_VALUE + 1|1",
    .cannotFail "guarded by `if payload.app_data.len() > MAX_APP_BYTES_PER_FRAME (249) { return Err }`: 249 + 5 + 1 = 255 fits u8"⟩,
  -- link/crc.rs
  ⟨5041140852783526284, "link/crc.rs|crc_increment|index|acc = CRC_TABLE[index] ^ (acc >> 8)|0",
    .cannotFail "index = (u8 ^ u8) as usize < 256 = CRC_TABLE.len() (Proofs.LinkParser.crcTable_size)"⟩,
  -- transport/real/writer.rs
  ⟨6809008349068894888, "transport/real/writer.rs|Writer::write|arith|chunks.len() - 1|0",
    .cannotFail "inside the else branch of `if chunks.len() == 0`"⟩,
  -- transport/real/sequence.rs
  ⟨8526463320880134315, "transport/real/sequence.rs|Sequence::calc_next|arith|value + 1|0",
    .cannotFail "inside the else branch of `if value == MAX_VALUE (63)`"⟩,
  -- app/sequence.rs
  ⟨14752895933946613712, "app/sequence.rs|Sequence::calc_next|arith|value + 1|0",
    .cannotFail "inside the else branch of `if value == MAX_VALUE (15)`"⟩,
  -- app/parse/traits.rs
  ⟨14070574708522644059, "app/parse/traits.rs|u8::next|arith|self + 1|0",
    .notPeerReachable "only callers: one() and the outstation PrefixWriter, which starts at one() and calls next() once per further echoed item of ONE request header, whose count field is the same width (<= 255 / 65535 items): no overflow; the master-side writer HeaderWriter::write_prefixed_items counts with checked_next() since the repair of D17 (C09) and no longer reaches this site"⟩,
  ⟨18046147020626651638, "app/parse/traits.rs|u16::next|arith|self + 1|0",
    .notPeerReachable "only callers: one() and the outstation PrefixWriter, which starts at one() and calls next() once per further echoed item of ONE request header, whose count field is the same width (<= 255 / 65535 items): no overflow; the master-side writer HeaderWriter::write_prefixed_items counts with checked_next() since the repair of D17 (C09) and no longer reaches this site"⟩,
  -- app/parse/count.rs
  ⟨10229195354683010637, "app/parse/count.rs|CountSequence::parse|arith|let num_bytes = T::SIZE as usize * count as usize;|0",
    .cannotFail "SIZE is a u8 and count a u16: product < 2^24 in usize"⟩,
  -- app/format/write.rs
  ⟨608490658271417086, "app/format/write.rs|HeaderWriter::write_free_format|arith|let length = crate::app::format::to_u16(self.cursor.position() - object_start)?;|0",
    .cannotFail "cursor position only grows between the two reads (object_start was read before value.write)"⟩,
  -- util/bit.rs
  ⟨1774453919388974205, "util/bit.rs|format_bitfield|index|push(f, prev, names[0])?;|0",
    .cannotFail "constant index < 8 into `[&'static str; 8]`, checked by rustc for array types"⟩,
  ⟨9756096302916840974, "util/bit.rs|format_bitfield|index|push(f, prev, names[1])?;|0",
    .cannotFail "constant index < 8 into `[&'static str; 8]`, checked by rustc for array types"⟩,
  ⟨5947580382733461287, "util/bit.rs|format_bitfield|index|push(f, prev, names[2])?;|0",
    .cannotFail "constant index < 8 into `[&'static str; 8]`, checked by rustc for array types"⟩,
  ⟨5891067625351217784, "util/bit.rs|format_bitfield|index|push(f, prev, names[3])?;|0",
    .cannotFail "constant index < 8 into `[&'static str; 8]`, checked by rustc for array types"⟩,
  ⟨608716688972006545, "util/bit.rs|format_bitfield|index|push(f, prev, names[4])?;|0",
    .cannotFail "constant index < 8 into `[&'static str; 8]`, checked by rustc for array types"⟩,
  ⟨10756197937195253474, "util/bit.rs|format_bitfield|index|push(f, prev, names[5])?;|0",
    .cannotFail "constant index < 8 into `[&'static str; 8]`, checked by rustc for array types"⟩,
  ⟨2637155399388282443, "util/bit.rs|format_bitfield|index|push(f, prev, names[6])?;|0",
    .cannotFail "constant index < 8 into `[&'static str; 8]`, checked by rustc for array types"⟩,
  ⟨3910194043922250652, "util/bit.rs|format_bitfield|index|push(f, prev, names[7])?;|0",
    .cannotFail "constant index < 8 into `[&'static str; 8]`, checked by rustc for array types"⟩,
  -- outstation/database/mod.rs
  ⟨1551951540285066236, "outstation/database/mod.rs|EventBufferConfig::max_events|arith|+ self.max_double_binary as usize|0",
    .notPeerReachable "sum of eight configured u16 limits in usize, at construction"⟩,
  ⟨5203261352955377877, "outstation/database/mod.rs|EventBufferConfig::max_events|arith|+ self.max_binary_output_status as usize|0",
    .notPeerReachable "sum of eight configured u16 limits in usize, at construction"⟩,
  ⟨3707579468392824989, "outstation/database/mod.rs|EventBufferConfig::max_events|arith|+ self.max_counter as usize|0",
    .notPeerReachable "sum of eight configured u16 limits in usize, at construction"⟩,
  ⟨3482436084091138332, "outstation/database/mod.rs|EventBufferConfig::max_events|arith|+ self.max_frozen_counter as usize|0",
    .notPeerReachable "sum of eight configured u16 limits in usize, at construction"⟩,
  ⟨11132348028617418291, "outstation/database/mod.rs|EventBufferConfig::max_events|arith|+ self.max_analog as usize|0",
    .notPeerReachable "sum of eight configured u16 limits in usize, at construction"⟩,
  ⟨15968306888718331834, "outstation/database/mod.rs|EventBufferConfig::max_events|arith|+ self.max_analog_output_status as usize|0",
    .notPeerReachable "sum of eight configured u16 limits in usize, at construction"⟩,
  ⟨12377948277987063904, "outstation/database/mod.rs|EventBufferConfig::max_events|arith|+ self.max_octet_string as usize|0",
    .notPeerReachable "sum of eight configured u16 limits in usize, at construction"⟩,
  ⟨1739985423053919868, "outstation/database/mod.rs|DatabaseHandle::transaction|unwrap|let mut db = self.inner.lock().unwrap();|0",
    .notPeerReachable "Mutex::lock().unwrap(): fails only if another thread panicked while holding the database lock (poisoning) - a consequence of an earlier panic (e.g. D3 inside the task), never its cause"⟩,
  ⟨12481562563912549729, "outstation/database/mod.rs|DatabaseHandle::clear_written_events|unwrap|let state = self.inner.lock().unwrap().inner.clear_written_events(app);|0",
    .notPeerReachable "Mutex::lock().unwrap(): fails only if another thread panicked while holding the database lock (poisoning) - a consequence of an earlier panic (e.g. D3 inside the task), never its cause"⟩,
  ⟨9268737207390444906, "outstation/database/mod.rs|DatabaseHandle::get_events_info|unwrap|let guard = self.inner.lock().unwrap();|0",
    .notPeerReachable "Mutex::lock().unwrap(): fails only if another thread panicked while holding the database lock (poisoning) - a consequence of an earlier panic (e.g. D3 inside the task), never its cause"⟩,
  ⟨11083213902154839723, "outstation/database/mod.rs|DatabaseHandle::select|unwrap|let mut guard = self.inner.lock().unwrap();|0",
    .notPeerReachable "Mutex::lock().unwrap(): fails only if another thread panicked while holding the database lock (poisoning) - a consequence of an earlier panic (e.g. D3 inside the task), never its cause"⟩,
  ⟨8775722536802608327, "outstation/database/mod.rs|DatabaseHandle::write_response_headers|unwrap|.unwrap()|0",
    .notPeerReachable "Mutex::lock().unwrap(): fails only if another thread panicked while holding the database lock (poisoning) - a consequence of an earlier panic (e.g. D3 inside the task), never its cause"⟩,
  ⟨3574680401021948642, "outstation/database/mod.rs|DatabaseHandle::write_unsolicited|unwrap|let mut guard = self.inner.lock().unwrap();|0",
    .notPeerReachable "Mutex::lock().unwrap(): fails only if another thread panicked while holding the database lock (poisoning) - a consequence of an earlier panic (e.g. D3 inside the task), never its cause"⟩,
  ⟨6649129292727277866, "outstation/database/mod.rs|DatabaseHandle::reset|unwrap|self.inner.lock().unwrap().inner.reset()|0",
    .notPeerReachable "Mutex::lock().unwrap(): fails only if another thread panicked while holding the database lock (poisoning) - a consequence of an earlier panic (e.g. D3 inside the task), never its cause"⟩,
  -- outstation/database/details/event/list.rs
  ⟨2131001293212187918, "outstation/database/details/event/list.rs|State::append|arith|size: self.size + 1,|0",
    .cannotFail "size counts the list entries (<= configured capacity)"⟩,
  ⟨18185697841795439467, "outstation/database/details/event/list.rs|State::from|unwrap|Some(State::new(head.unwrap(), tail.unwrap(), size))|0",
    .cannotFail "size != 0 branch: a non-empty list has head and tail (VecList structural invariant; remove_at computes them from the removed entry's links)"⟩,
  ⟨18185696742283811256, "outstation/database/details/event/list.rs|State::from|unwrap|Some(State::new(head.unwrap(), tail.unwrap(), size))|1",
    .cannotFail "size != 0 branch: a non-empty list has head and tail (VecList structural invariant; remove_at computes them from the removed entry's links)"⟩,
  ⟨17782814589387531121, "outstation/database/details/event/list.rs|ListIterator::next|index|let entry = &self.list.storage[idx];|0",
    .cannotFail "VecList structural invariant: head / tail / next / prev / free-stack values are indices of pushed entries, never derived from peer octets (NOT proved here: the VecList refinement belongs to C03's event-buffer model; exercised by every event-bearing rawbytes / outstation case)"⟩,
  ⟨4342622365698558280, "outstation/database/details/event/list.rs|VecList::add|index|self.storage[idx] = Entry::last(self.version, item, Some(current.tail));|0",
    .cannotFail "VecList structural invariant: head / tail / next / prev / free-stack values are indices of pushed entries, never derived from peer octets (NOT proved here: the VecList refinement belongs to C03's event-buffer model; exercised by every event-bearing rawbytes / outstation case)"⟩,
  ⟨6966508945515272912, "outstation/database/details/event/list.rs|VecList::add|index|self.storage[current.tail].metadata.next = Some(idx);|0",
    .cannotFail "VecList structural invariant: head / tail / next / prev / free-stack values are indices of pushed entries, never derived from peer octets (NOT proved here: the VecList refinement belongs to C03's event-buffer model; exercised by every event-bearing rawbytes / outstation case)"⟩,
  ⟨6966510045026901123, "outstation/database/details/event/list.rs|VecList::add|index|self.storage[current.tail].metadata.next = Some(idx);|1",
    .cannotFail "VecList structural invariant: head / tail / next / prev / free-stack values are indices of pushed entries, never derived from peer octets (NOT proved here: the VecList refinement belongs to C03's event-buffer model; exercised by every event-bearing rawbytes / outstation case)"⟩,
  ⟨5002750774633794326, "outstation/database/details/event/list.rs|VecList::add|index|self.storage[idx] = Entry::first(self.version, item);|0",
    .cannotFail "VecList structural invariant: head / tail / next / prev / free-stack values are indices of pushed entries, never derived from peer octets (NOT proved here: the VecList refinement belongs to C03's event-buffer model; exercised by every event-bearing rawbytes / outstation case)"⟩,
  ⟨18178355079208690654, "outstation/database/details/event/list.rs|VecList::remove_all|index|let entry = &self.storage[current];|0",
    .cannotFail "VecList structural invariant: head / tail / next / prev / free-stack values are indices of pushed entries, never derived from peer octets (NOT proved here: the VecList refinement belongs to C03's event-buffer model; exercised by every event-bearing rawbytes / outstation case)"⟩,
  ⟨6792929808337973728, "outstation/database/details/event/list.rs|VecList::remove_all|arith|count += 1;|0",
    .cannotFail "usize counter bounded by the list length"⟩,
  ⟨3991911709453574731, "outstation/database/details/event/list.rs|VecList::find_first_from|index|let entry = &self.storage[current];|0",
    .cannotFail "VecList structural invariant: head / tail / next / prev / free-stack values are indices of pushed entries, never derived from peer octets (NOT proved here: the VecList refinement belongs to C03's event-buffer model; exercised by every event-bearing rawbytes / outstation case)"⟩,
  ⟨15911077394716029083, "outstation/database/details/event/list.rs|VecList::remove_at|index|self.storage[prev].metadata.next = metadata.next;|0",
    .cannotFail "VecList structural invariant: head / tail / next / prev / free-stack values are indices of pushed entries, never derived from peer octets (NOT proved here: the VecList refinement belongs to C03's event-buffer model; exercised by every event-bearing rawbytes / outstation case)"⟩,
  ⟨362716656521721267, "outstation/database/details/event/list.rs|VecList::remove_at|index|self.storage[next].metadata.prev = metadata.prev;|0",
    .cannotFail "VecList structural invariant: head / tail / next / prev / free-stack values are indices of pushed entries, never derived from peer octets (NOT proved here: the VecList refinement belongs to C03's event-buffer model; exercised by every event-bearing rawbytes / outstation case)"⟩,
  ⟨1749672840689736332, "outstation/database/details/event/list.rs|VecList::remove_at|arith|self.state = State::from(current.size - 1, new_head, new_tail);|0",
    .cannotFail "remove_at of an existing entry: current.size >= 1"⟩,
  -- outstation/database/details/event/writer.rs
  ⟨18313138941866619161, "outstation/database/details/event/writer.rs|HeaderState::increment|arith|count: self.count + 1,|0",
    .cannotFail "u16 count of event objects written into ONE response fragment (<= 2048 octets, >= 3 octets per object)"⟩,
  -- outstation/database/details/event/write_fn.rs
  ⟨16510232596529126526, "outstation/database/details/event/write_fn.rs|write_cto|arith|let difference: u64 = time.timestamp().raw_value() - cto.timestamp().raw_value();|0",
    .cannotFail "guarded by `if cto > time { return NewHeader }` directly above"⟩,
  -- outstation/database/details/range/static_db.rs
  ⟨843845038246756492, "outstation/database/details/range/static_db.rs|SelectionQueue::push_back|arith|self.capacity_exceeded += 1;|0",
    .cannotFail "usize counter reset by SelectionQueue::reset() on every READ; at most one increment per object header of one fragment"⟩,
  ⟨11758349530546425529, "outstation/database/details/range/static_db.rs|Deadband::exceeded|arith|let diff = if lhs > rhs { lhs - rhs } else { rhs - lhs };|0",
    .notPeerReachable "deadband comparison on values supplied by the application (Database::update), taken on the larger-minus-smaller branch"⟩,
  ⟨11758348431034797318, "outstation/database/details/range/static_db.rs|Deadband::exceeded|arith|let diff = if lhs > rhs { lhs - rhs } else { rhs - lhs };|1",
    .notPeerReachable "deadband comparison on values supplied by the application (Database::update), taken on the larger-minus-smaller branch"⟩,
  ⟨14925000443606191936, "outstation/database/details/range/static_db.rs|OctetString::default|unwrap|Self::new(&[0x00]).unwrap()|0",
    .cannotFail "OctetString::new(&[0x00]) of a constant non-empty slice is Ok"⟩,
  -- outstation/database/details/range/writer.rs
  ⟨15379675593852642448, "outstation/database/details/range/writer.rs|BitState::next|arith|bit_pos: self.bit_pos + T::NUM_BITS,|0",
    .cannotFail "guarded by `if self.bit_pos < 8`; NUM_BITS is 1 or 2"⟩,
  ⟨14393560617674958007, "outstation/database/details/range/writer.rs|is_consecutive|arith|next == last + 1|0",
    .cannotFail "guarded by `if next > last`, so last < 65535"⟩
]

/-- every site's id is in the table (interned comparison only: fast in the kernel) -/
theorem all_site_ids_classified : (Gen.panicSites.all fun s => (lookup classified s.id).isSome) = true := by
  decide +kernel

/-- ... and the entry found under that id carries literally the same key string (a conjunction of
    equations closed by `rfl`: the kernel compares string LITERALS) -/
theorem keys_agree : keysAgree classified Gen.panicSites := by
  repeat' (first | exact trivial | apply And.intro | exact rfl)

/-- **`all_sites_classified`**: every potentially panicking construct of the inventoried files has
    a classification.  (A construct added to those files yields a key that is not in `classified`.) -/
theorem all_sites_classified : ∀ s ∈ Gen.panicSites, s.key ∈ classified.map (·.key) :=
  keysAgree_mem classified _ keys_agree

/-- the inventory is not empty and is the one the generator counted -/
theorem inventory_size : Gen.panicSites.length = Gen.panicSiteCount := by decide +kernel

/-- no site is left that CAN fail on peer input: the three `unwrap`s of `handle_operate` (D1) are gone from
    the source (the function keeps the `Result` of its echo writers, like `handle_select` /
    `handle_direct_operate`); the D2 site (`self.index += 1` of `RangedBytesIterator`) is guarded since
    `fix:` 320622f and is covered by `iter_no_panic`; the D3 site (`Count::subtract`) cannot underflow
    since the repair of `EventBuffer::insert` and is covered by `no_counter_underflow` -/
theorem known_finding_sites : knownFindingIds classified = [] := by decide +kernel

/-- classification statistics (modelled, not peer-reachable, cannot fail, known finding) -/
theorem classification_counts : countClass classified = (13, 30, 94, 0) := by decide +kernel

/-! ## 2. link layer: `Parser::parse`, `Reader::read_frame`

The link models return a result for every input by construction (total functions; the only
`LogicError`-style outcomes are values).  What makes "never spins" true is PROGRESS: no loop
depends on its fuel, for ALL inputs, garbage included. -/

/-- **`link_no_panic`** (discard loop): `Parser::parse` in discard mode calls the retry loop with
    fuel = number of unread octets; any larger fuel gives the same result; the result is never an
    error, its unread rest is a suffix of the input, and a failed first `parse_impl` means strictly
    fewer octets are left (at most `bs.length` retries).  No hypothesis on state or octets. -/
theorem link_no_panic (st : PState) (bs : List Nat) :
    (∀ n, parseDiscard (bs.length + n) st bs = parseDiscard bs.length st bs) ∧
    (∀ st' rest r, parseDiscard bs.length st bs = (st', rest, r) →
      (∃ pre, bs = pre ++ rest) ∧ (∃ x, r = .ok x) ∧
      (∀ s1 r1 e, parseImpl st bs = (s1, r1, .error e) → bs ≠ [] ∧ rest.length < bs.length)) :=
  parseDiscard_progress st bs

/-- the number of discard retries is at most the number of unread octets -/
theorem link_discard_retries_bounded (st : PState) (bs : List Nat) :
    ∃ k st' rest x, k ≤ bs.length ∧ parse .discard st bs = (st', rest, .ok x) ∧
      parseImpl (if k = 0 then st else .sync1) (bs.drop k) = (st', rest, .ok x) ∧
      (∀ j, j < k → ∃ s r e, parseImpl (if j = 0 then st else .sync1) (bs.drop j) = (s, r, .error e)) :=
  parseDiscard_retries st bs

/-- **`link_parse_progress`** (either mode): the parser never un-reads, keeps its state
    well-formed (also after an error), delivers a frame only after consuming an octet, never errors
    in discard mode, and when it asks for more leaves at most 281 octets unread (less than the
    293-octet minimum buffer: the reader's next read is never a zero-length read) -/
theorem link_parse_progress (m : ErrMode) (st st' : PState) (bs rest : List Nat) (r : PResult)
    (hw : wfState st) (hp : parse m st bs = (st', rest, r)) :
    (∃ pre, bs = pre ++ rest) ∧ wfState st' ∧
    (∀ x, r = .ok (some x) → rest.length < bs.length ∧ st' = .sync1) ∧
    (m = .discard → ∃ x, r = .ok x) ∧
    (r = .ok none → (∀ b ∈ bs, b < 256) → boundedState st → rest.length ≤ 281 ∧ boundedState st') :=
  parse_consumes_or_waits m st st' bs rest r hw hp

example : wfState .sync1 ∧ parse .discard .sync1 [7, 5, 0x64] = (.header, [], .ok none) := ⟨trivial, rfl⟩

/-- **`link_reader_never_spins`**: on ANY input (not only valid streams) the loop of `read_frame`
    needs at most `3·|chunk| + |pending| + 4` iterations: more fuel changes nothing.  Every
    iteration returns a frame after consuming an octet, or takes in at least one available octet,
    or ends. -/
theorem link_reader_never_spins (r : Reader) (avail : List Nat) (hw : wfState r.pst) :
    ∀ n, Reader.run (3 * avail.length + r.pending.length + 4 + n) r avail =
         Reader.run (3 * avail.length + r.pending.length + 4) r avail :=
  reader_run_fuel_sufficient r avail hw

example : wfState (Reader.new .discard .stream 2048).pst := trivial

/-- **`link_reader_buffer_invariant`** (the slice indexing and cursor arithmetic of
    `link/reader.rs::ReadBuffer`): `begin ≤ end ≤ cap`, `|unread| = end - begin`, `cap ≥ 293`, parser
    state well-formed and bounded — holds for a new reader, after `reset`, and after every
    `Reader.feed` of octets; so `buffer[begin..end]`, `buffer[end..]`, `end -= begin`,
    `end += count`, `begin += count`, `end - begin` cannot fail. -/
theorem link_reader_buffer_invariant :
    (∀ em rm frag, RInv (Reader.new em rm frag)) ∧
    (∀ r, RInv r → RInv r.reset) ∧
    (∀ r chunk, RInv r → (∀ b ∈ chunk, b < 256) → RInv (r.feed chunk).1) ∧
    (∀ chunks r, RInv r → (∀ c ∈ chunks, ∀ b ∈ c, b < 256) → RInv (r.feedAll chunks).1) :=
  ⟨rinv_new, rinv_reset, rinv_feed, fun chunks r h hc => rinv_feedAll chunks r h hc⟩

example : RInv (Reader.new .discard .stream 2048) := rinv_new _ _ _

/-- **`link_reader_never_wedges`**: `Reader.feed` stops only when the session died on a Close-mode
    error or EVERY available octet has been taken in; in Discard mode it never dies -/
theorem link_reader_never_wedges (r : Reader) (chunk : List Nat) (h : RInv r) (hc : ∀ b ∈ chunk, b < 256) :
    ((runL (3 * chunk.length + r.pending.length + 4) r chunk).1,
      (runL (3 * chunk.length + r.pending.length + 4) r chunk).2.1) = r.feed chunk ∧
    ((r.feed chunk).1.dead = true ∨ (runL (3 * chunk.length + r.pending.length + 4) r chunk).2.2 = []) ∧
    (r.emode = .discard → r.dead = false → (r.feed chunk).1.dead = false) :=
  feed_never_wedges r chunk h hc

example : RInv (Reader.new .close .datagram 249) ∧ ∀ b ∈ [5, 0x64, 0xFF, 0xFF], b < 256 :=
  ⟨rinv_new _ _ _, by decide⟩

/-! ## 3. transport: `Reader::read`, `Assembler` -/

/-- **`transport_never_spins`**: transport `Reader::read` and the drain loop never depend on their
    fuel (each recursive call has removed a queued link event / popped something).  No hypotheses. -/
theorem transport_never_spins (t : TReader) (dbl : Bool) :
    (∀ n, TReader.read (t.queue.length + 2 + n) t = TReader.read (t.queue.length + 2) t) ∧
    (∀ n, TReader.drain (t.queue.length + 2 + n) dbl t = TReader.drain (t.queue.length + 2) dbl t) :=
  ⟨transport_read_fuel_sufficient t, transport_drain_fuel_sufficient t dbl⟩

/-- **`transport_no_panic`** (the three `expect`s of `transport/real/assembler.rs`): the assembler
    never accumulates more than `cap` octets and the length it records is exactly what it holds —
    for every header and payload (`assemble`), for `pop`, and end to end for octets arriving on the
    wire (`TReader.feed`): every fragment handed to the application has at most `cap` octets. -/
theorem transport_no_panic :
    (∀ (a : Assembler) info hdr payload, AInv a →
      AInv (a.assemble info hdr payload) ∧ (a.assemble info hdr payload).cap = a.cap ∧
      (a.assemble info hdr payload).buf.length ≤ a.cap) ∧
    (∀ (a : Assembler), AInv a → AInv a.pop.1 ∧ a.pop.1.cap = a.cap ∧
      ∀ fi d, a.pop.2 = some (fi, d) → d = a.buf ∧ d.length ≤ a.cap) ∧
    (∀ (t : TReader) dbl chunk, AInv t.asm →
      AInv (t.feed dbl chunk).1.asm ∧ (t.feed dbl chunk).1.asm.cap = t.asm.cap ∧
      ∀ fi d, TOut.frag fi d ∈ (t.feed dbl chunk).2 → d.length ≤ t.asm.cap) :=
  ⟨assembler_total, assembler_pop_bounded, ainv_tfeed⟩

example : AInv (TReader.new ⟨false, false, 1024⟩ .discard .stream 2048).asm :=
  ⟨Nat.zero_le _, fun l hl => by cases hl⟩

/-! ## 4. application objects: the header walk and the lazy iterators -/

/-- **`walk_terminates`**: the validating pass is a well-founded recursion on the remaining
    octets: every accepted header consumes at least 3, so an accepted object section of `n` octets
    holds at most `n / 3` headers -/
theorem walk_terminates :
    (∀ {isRead zls bs rest rec}, parseOne isRead zls bs = .ok (rec, rest) → rest.length + 3 ≤ bs.length) ∧
    (∀ isRead zls bs recs, walk isRead zls bs = .ok recs → 3 * recs.length ≤ bs.length) :=
  ⟨fun h => walk_progress_three h, walk_headers_bounded⟩

example : parseOne false false [1, 2, 0, 3, 4, 0x81, 0x01] =
    .ok (⟨.fixed 1 2, .range false 3 4, .fixed 1 2, [0x81, 0x01]⟩, []) := rfl

/-- **`iter_no_panic`**: iterating an accepted header never panics — for any payload and every
    payload kind — provided the announced last index is a `u16`, which every accepted range
    satisfies.  (Before `fix:` 320622f a ranged octet-string header ending at index 65535 overflowed:
    D2, now a regression case of engines `parse`, `convert` and `rawbytes`.) -/
theorem iter_no_panic (r : HeaderRec)
    (hidx : r.kind = .octets ∨ r.kind = .bits ∨ r.kind = .dbits → r.spec.start + r.spec.nobj ≤ 65536) :
    iterPanics r = false :=
  Proofs.NoPanicLink.iter_no_panic r hidx

example : (⟨.wild 110 1, .range true 65535 65535, .octets, [0x41]⟩ : HeaderRec).spec.start +
    (⟨.wild 110 1, .range true 65535 65535, .octets, [0x41]⟩ : HeaderRec).spec.nobj ≤ 65536 := by decide

/-- the former D2 witness `6E 01 01 FF FF FF FF 41` is accepted and iterated cleanly -/
theorem iter_end_of_index_space :
    parseOne false false [110, 1, 1, 255, 255, 255, 255, 0x41] =
      .ok (⟨.wild 110 1, .range true 65535 65535, .octets, [0x41]⟩, []) ∧
    iterate ⟨.wild 110 1, .range true 65535 65535, .octets, [0x41]⟩ = some (.ok [⟨some 65535, [0x41]⟩]) ∧
    iterPanics ⟨.wild 110 1, .range true 65535 65535, .octets, [0x41]⟩ = false :=
  Proofs.NoPanicLink.iter_end_of_index_space

/-! ## 5. the outstation session

`Outstation.step` (Model/Outstation.lean) is total; a Rust panic is the explicit outcome
`StepRes.panicked` (`die`: `mode := .dead`, output `OOut.panic`).  The database behind the `Db`
interface is OPAQUE to the session-level theorem `outstation_step_panic_cause` (no `Db.*` function is
unfolded in its proof); the one fact it needs about the database — `unwrittenClasses` never fails on a
database reachable from a fresh one — is the database component's `counters_exact`
(`Props/DbComponent.lean`), brought in by `no_counter_underflow`. -/

/-- **`outstation_step_panic_cause`** (database opaque): for EVERY state `s` — reachable or not — and
    EVERY input `i`, a step of the outstation session panics ONLY IF `Db.unwrittenClasses` returns `none`
    (the checked counter subtraction) on a database reachable from `s.db` by the database operations the
    session applies (`CounterUnderflow`; the former D3 — excluded by `no_counter_underflow` whenever `s.db`
    has exact counters).  No request handler panics any more: the `unwrap`s of `handle_operate` on an echo
    that does not fit the solicited buffer (D1) are gone. -/
theorem outstation_step_panic_cause (env : OEnv) (s : OState) (i : OInput)
    (hp : OOut.panic ∈ (Outstation.step env s i).2) : CounterUnderflow s.db :=
  Proofs.NoPanicOutstation.outstation_step_panic_cause env s i hp

/-- `DbReach db0` (the closure used by `CounterUnderflow` and by the session frame `LeS`) is exactly:
    the databases `run db0 ops` for a list `ops` of the seven database operations of the component
    theorems (`add`, `update`, `select`, `write`, `unsol`, `clear`, `reset`) -/
theorem db_reach_is_run (db0 db : Db) : DbReach db0 db ↔ ∃ ops : List DbProofs.DbOp, db = DbProofs.run db0 ops :=
  dbReach_iff_run db0 db

/-- **`no_counter_underflow`** (the `Count::subtract` site of `unwritten_classes`; D3 repaired): from
    a database with exact counters — in particular a fresh one, and every database reachable from a
    fresh one — no sequence of database operations reaches a state in which the checked subtraction
    `total - written` fails -/
theorem no_counter_underflow :
    (∀ db0, DbProofs.CountersExact db0 → ¬ CounterUnderflow db0) ∧
    (∀ evMax sel db, DbReach (Db.new evMax sel) db → DbProofs.CountersExact db ∧ ¬ CounterUnderflow db) :=
  ⟨fun _ h => no_counterUnderflow h,
   fun evMax sel _ h => ⟨dbReach_counters (DbProofs.new_counters evMax sel) h, no_counterUnderflow_of_fresh evMax sel h⟩⟩

example : DbProofs.CountersExact (Db.new 3 none) := DbProofs.new_counters 3 none

/-- every state of every trace from construction is alive (the task never panicked) and holds a database
    with exact counters -/
theorem reachable_alive_db_counters_exact (cfg : OCfg) (evMax : Nat) (env : OEnv) (s : OState)
    (hr : Outstation.Reachable cfg evMax env s) : s.mode ≠ .dead ∧ DbProofs.CountersExact s.db :=
  reachable_alive_counters hr

/-- the start-up pass itself (construction until the task first blocks) does not panic -/
theorem outstation_start_no_panic (cfg : OCfg) (evMax : Nat) :
    OOut.panic ∉ (Outstation.start cfg evMax).2 ∧ (Outstation.start cfg evMax).1.mode ≠ .dead :=
  ⟨(start_alive_counters cfg evMax).1, (start_alive_counters cfg evMax).2.1⟩

/-- one step from ANY state whose database has exact counters does not panic, and a live task stays alive -/
theorem outstation_step_no_panic_of_counters (env : OEnv) (s : OState) (i : OInput)
    (hdb : DbProofs.CountersExact s.db) :
    OOut.panic ∉ (Outstation.step env s i).2 ∧ (s.mode ≠ .dead → (Outstation.step env s i).1.mode ≠ .dead) :=
  Proofs.NoPanicOutstation.outstation_step_no_panic_of_counters env s i hdb

/-- **`outstation_step_no_panic`** (the full statement; was `_partial` + counterexample while D1 stood): on
    EVERY trace from construction — any configuration (buffer sizes, timeouts, modes; in particular every
    configuration with the library's minimum buffer sizes), any event-buffer size, any input list — and for
    EVERY further input (fragment, clock advance, database transaction, point added, disconnect, script
    change), a step of the outstation session neither panics nor leaves the task dead. -/
theorem outstation_step_no_panic (cfg : OCfg) (evMax : Nat) (env : OEnv) (s : OState)
    (hr : Outstation.Reachable cfg evMax env s) (i : OInput) :
    OOut.panic ∉ (Outstation.step env s i).2 ∧ (Outstation.step env s i).1.mode ≠ .dead :=
  outstation_reachable_no_panic hr i

example : Outstation.Reachable { sol := 249 } 10 {} d1State := d1State_reachable

/-- the former D1 counterexample to the full statement is answered: tx buffer 249, OPERATE of 62 x g41v2
    with 16-bit indices (317 octets) against the freshly started session — the state is reachable, no panic,
    the task lives, and exactly one fragment goes out, to the master: `d1Response`, the NO_SELECT (status 2)
    echo of the 48 objects that fit 249 octets, count patched to 48, FIR FIN, the request's sequence number,
    IIN2 clean; no control callback is made.  (That the echo is silently truncated is the remaining finding
    D13.)  Regression cases on the real task: harness/corpus/C12/outstation_D1.ops (engine outstation) and
    harness/corpus/C01/rawbytes_D1.ops (engine rawbytes) -/
theorem outstation_former_d1_witness_answered :
    Outstation.Reachable { sol := 249 } 10 {} d1State ∧
    OOut.panic ∉ (Outstation.step {} d1State (.rx 1 1024 d1Data)).2 ∧
    (Outstation.step {} d1State (.rx 1 1024 d1Data)).1.mode ≠ .dead ∧
    txFrags (Outstation.step {} d1State (.rx 1 1024 d1Data)).2 = [(1, d1Response)] ∧
    cbs (Outstation.step {} d1State (.rx 1 1024 d1Data)).2 = [] ∧
    d1Response = [0xC0, 0x81, 0x80, 0x00, 41, 2, 0x28, 48, 0] ++ (List.replicate 48 [1, 0, 5, 0, 2]).flatten ∧
    d1Response.length = 249 :=
  ⟨d1State_reachable, not_mem_of_any_isPanic d1_answered.1, ne_dead_of_isDead d1_answered.2.1,
   d1_answered.2.2.1, d1_answered.2.2.2.1, rfl, d1_answered.2.2.2.2⟩

/-- **`outstation_dies_only_by_panic`**: `Mode.dead` is entered only together with the `panic` output -/
theorem outstation_dies_only_by_panic (env : OEnv) (s : OState) (i : OInput) (hs : s.mode ≠ .dead)
    (hd : (Outstation.step env s i).1.mode = .dead) : OOut.panic ∈ (Outstation.step env s i).2 :=
  dead_only_by_panic env s i hs hd

example : d1State.mode ≠ .dead := (reachable_alive_db_counters_exact _ _ _ _ d1State_reachable).1

/-- the former D3 counterexample, in the model with the real database: event buffer of one event per
    type, a class-1 event transmitted unsolicited (Written), a class-2 event of the same type overflows
    it out, then the 2-octet DELAY_MEASURE request `C1 17` — which used to panic in `get_response_iin` —
    is answered: the state is reachable, no panic, the task lives, `unwritten_classes` reports class 2.
    Regression case on the real task: harness/corpus/C01/rawbytes_D3.ops (engine rawbytes) -/
theorem outstation_former_d3_witness_no_panic :
    Outstation.Reachable { unsolicited := true } 1 {} d3State ∧
    OOut.panic ∉ (Outstation.step {} d3State (.rx 1 1024 [0xC1, 0x17])).2 ∧
    (Outstation.step {} d3State (.rx 1 1024 [0xC1, 0x17])).1.mode ≠ .dead ∧
    d3State.db.unwrittenClasses = some (false, true, false) :=
  ⟨d3State_reachable, not_mem_of_any_isPanic d3_no_longer_panics.1,
   fun h => (by have := d3_no_longer_panics.2.1; rw [h] at this; cases this),
   d3_no_longer_panics.2.2⟩

/-- **`outstation_never_spins`**: `runPass` is one pass of `run_idle_state` per unit of fuel, invoked
    with `passFuel = 64`.  Unless the keep-alive period is configured as 0 (a timer that is due again
    the moment it is re-armed: configuration, not peer input), the continuation of the SECOND
    consecutive pass is never called — a third consecutive pass never happens — so the result never
    depends on the fuel, and the `modelFuelExhausted` callback of `runPass 0` is unreachable.
    (Each extra pass needs `pending`, `notified`, `noSleep` or a due deadline; the first pass consumes
    `pending` and `deferred`, and leaves every deadline strictly in the future.) -/
theorem outstation_never_spins {a : Acc} (hka : a.1.cfg.keepalive ≠ some 0) :
    (∀ k₁ k₂ : Acc → StepRes, pass (pass k₁) a = pass (pass k₂) a) ∧
    (∀ n, runPass (n + 2) a = runPass 2 a) ∧
    (∀ k : Acc → StepRes, runPass passFuel a = pass (pass k) a) :=
  ⟨fun k₁ k₂ => pass_pass_indep k₁ k₂ hka, fun n => runPass_add_two n hka, fun k => runPass_passFuel k hka⟩

theorem runPass_is_pass (n : Nat) (a : Acc) : runPass (n + 1) a = pass (runPass n) a := rfl

example : ((OState.init {} 10, []) : Acc).1.cfg.keepalive ≠ some 0 := by decide

/- NOT PROVED: the analogous statement for the outer loop `settle 8` (`settle (n + 2) r = settle 2 r`);
   the argument (at most two re-dispatches: only the `newRequest` path of a solicited confirm wait
   retains the fragment) is written out at the end of Proofs/NoPanicOutstation.lean. -/

/-! ## 6. the theorem names used by the classification exist -/
example := @link_reader_buffer_invariant
example := @transport_no_panic
example := @iter_no_panic
example := @outstation_step_no_panic
example := @no_counter_underflow

end Dnp3.Props.C01
