import Dnp3.Model.OutstationTrace
import Dnp3.Proofs.OutstationC04
/-!
# C04 — OPERATE actuates only after its own matching, fresh, directly preceding SELECT

Property theorems over the outstation session model for ALL states and histories, restated
verbatim from `Dnp3.Proofs.OutstationC04` (definitions `isSbo`, `isExec`, `CurFrag`, `stepNow`,
`SelectAllZero`, `rxAccept`, … live there).  Defect D9 (a byte-identical repeat of ANY last non-READ
request re-based the stored select's frame id) is repaired: only a retransmission of the stored SELECT
itself that directly follows it re-bases (`step_select_change` (b)), and the FULL trace statement holds:
`operate_needs_select` — a select-before-operate actuation at step `k` has a matching, fresh, fully
successful SELECT at a step `j < k`, no effective `.cut` in between, and every fragment delivered strictly
between `j` and `k` is a retransmission of that SELECT (unicast, function 3, same sequence number, same object
octets) that executed nothing (for runs from an empty transport reader that are shorter than 2^32 steps: the
`u32` frame counter wraps, in the model as in the Rust code).  It rests on `step_pending` (every step consumes
the fragment it works on) and `step_frameId`.  The former counterexample run is kept as the regression example
`operate_after_intervening_write_rejected`, next to `select_retransmitted_then_operate_example` (the
legitimate retransmission path still actuates) and `select_stray_retransmitted_then_operate_rejected`.
-/
namespace Dnp3.Props.C04
open Dnp3 Dnp3.Proofs.C04

/-- **C04.1** `matchOperate` accepts iff sequence, frame id, object bytes and age all match. -/
theorem match_operate_iff (sel : Sel) (timeout now seq frameId : Nat) (objs : List Nat) :
    matchOperate sel timeout now seq frameId objs = none ↔
      (seq = seq4Next sel.seq ∧ frameId = (sel.frameId + 1) % 2 ^ 32 ∧ objs = sel.objects ∧
        now - sel.time ≤ timeout) :=
  @Dnp3.Proofs.C04.match_operate_iff sel timeout now seq frameId objs

/-- the status of a rejected OPERATE: `1` (Timeout) exactly when only the age check fails,
    `2` (NoSelect) when sequence, frame id or object bytes differ. -/
theorem match_operate_status (sel : Sel) (timeout now seq frameId : Nat) (objs : List Nat) (st : Nat)
    (h : matchOperate sel timeout now seq frameId objs = some st) :
    (st = 1 ∧ seq = seq4Next sel.seq ∧ frameId = (sel.frameId + 1) % 2 ^ 32 ∧ objs = sel.objects ∧
        timeout < now - sel.time) ∨
    (st = 2 ∧ ¬ (seq = seq4Next sel.seq ∧ frameId = (sel.frameId + 1) % 2 ^ 32 ∧ objs = sel.objects)) :=
  @Dnp3.Proofs.C04.match_operate_status sel timeout now seq frameId objs st h

/-- **C04.2 (step level, every state)**: a select-before-operate actuation appears in the outputs of a
    step only if the fragment the step works on parses as a unicast function-4 request with well-formed
    objects, a SELECT is stored, and `matchOperate` accepts it (sequence, frame id, object bytes, age). -/
theorem step_sbo_needs_match (env : OEnv) (s : OState) (i : OInput) (o : OOut)
    (ho : o ∈ (Outstation.step env s i).2) (hsbo : isSbo o = true) :
    ∃ f ctrl hs raw sel, CurFrag env s i f ∧ parseRequest f.data = .request ctrl 4 (.ok hs) raw ∧
      f.broadcast = none ∧ s.select = some sel ∧
      matchOperate sel s.cfg.stimeout (stepNow s i) ctrl.seq f.id raw = none :=
  @Dnp3.Proofs.C04.step_sbo_needs_match env s i o ho hsbo

/-- **C04.2 (rejection)**: an OPERATE that is not accepted actuates nothing: no callback of any kind is
    emitted, `select` is untouched, and the reply is the echo computed by `ctlAll none st none`, i.e. by the
    branch of the loop that calls no handler and writes `withStatus obj st` for every object that fits the
    solicited buffer (D1 repaired: an echo that does not fit is truncated, not a panic), where
    `st ∈ {1, 2}` is the verdict (`operateVerdict_status`); IIN2 is clean. -/
theorem operate_rejected (a : Acc) (seq fid : Nat) (hs : List ObjHdr) (raw : List Nat) (st : Nat)
    (hall : hs.all isControlHdr = true) (hv : operateVerdict a.1 seq fid raw = some st) :
    handleControls a 4 seq fid hs raw =
      some (({ a.1 with solBuf := writeAt a.1.solBuf 4 (rejectRun a st hs).out }, a.2),
        some (singleResponse seq 0 (4 + (rejectRun a st hs).out.length))) :=
  @Dnp3.Proofs.C04.operate_rejected a seq fid hs raw st hall hv

/-- at the `handleNonRead` level: nothing is emitted and `select` is kept -/
theorem operate_rejected_no_callbacks {a a' : Acc} {seq fid : Nat} {hs : List ObjHdr} {raw : List Nat}
    {r : Option Resp} (h : handleNonRead a 4 seq fid hs raw = some (a', r))
    (hno : ¬ OperateOk a.1 seq fid raw) : a'.2 = a.2 ∧ a'.1.select = a.1.select :=
  @Dnp3.Proofs.C04.operate_rejected_no_callbacks a a' seq fid hs raw r h hno

/-- **C04.3 (where `select` comes from, every state)**: after a step `select` is unchanged, or
    (c) cleared by `.cut`, or the fragment the step works on was a unicast request with well-formed objects and
    (a) function 3 that was new (not a repeat), every handler status was 0 and the echo fitted:
        `select = ⟨seq, frame id, now, raw objects⟩`; or
    (b) it took the `repeatNonRead` branch (its sequence number and bytes equal the last recorded request, so
        the step executed nothing) AND it is a retransmission of the stored SELECT itself that directly follows
        it — function 3, the select's sequence number, the select's object octets, and a frame id that is the
        select's plus one (mod 2^32) — and only `frameId` was overwritten with this fragment's id
        (`update_frame_id_on_repeat`; defect D9 — a repeat of ANY last non-READ request re-based — is repaired). -/
theorem step_select_change (env : OEnv) (s : OState) (i : OInput) :
    (Outstation.step env s i).1.select = s.select ∨
    (isCut i = true ∧ (Outstation.step env s i).1.select = none) ∨
    ∃ f ctrl func hs raw, CurFrag env s i f ∧ parseRequest f.data = .request ctrl func (.ok hs) raw ∧
      f.broadcast = none ∧ func ≠ 0 ∧ func ≠ 1 ∧
      ((func = 3 ∧
          (s.deferred = none → ¬ isCut i = true →
            ¬ ∃ last, s.lastReq = some last ∧ last.seq = ctrl.seq ∧ last.frag = f.data) ∧
          (Outstation.step env s i).1.select = some ⟨ctrl.seq, f.id, stepNow s i, raw⟩ ∧
          SelectAllZero (Outstation.step env s i).2) ∨
       ((s.deferred = none → ¬ isCut i = true →
            ∃ last, s.lastReq = some last ∧ last.seq = ctrl.seq ∧ last.frag = f.data) ∧
          (∀ o ∈ (Outstation.step env s i).2, isExec o = false) ∧
          ∃ sel, s.select = some sel ∧
            func = 3 ∧ sel.seq = ctrl.seq ∧ (sel.frameId + 1) % 2 ^ 32 = f.id ∧ sel.objects = raw ∧
            (Outstation.step env s i).1.select = some { sel with frameId := f.id })) :=
  @Dnp3.Proofs.C04.step_select_change env s i

/-- **C04.4**: the transport frame counter increases by exactly 1 (mod 2^32) for every delivered fragment
    and is unchanged by every other input (including `.cut` and rejected `.rx`). -/
theorem step_frameId (env : OEnv) (s : OState) (i : OInput) :
    (Outstation.step env s i).1.frameId =
      match i with
      | .rx src dst data =>
        if (rxAccept env s src dst data).isSome then (s.frameId + 1) % 2 ^ 32 else s.frameId
      | _ => s.frameId :=
  @Dnp3.Proofs.C04.step_frameId env s i

/-- the state after construction has no SELECT stored -/
theorem start_select (cfg : OCfg) (evMax : Nat) : (Outstation.start cfg evMax).1.select = none :=
  @Dnp3.Proofs.C04.start_select cfg evMax

/-- **C04.6 (every step consumes the fragment it works on)**: no fragment is left over for a later step — after
    every step of a live task the transport reader is empty (`pending = none`).  (The confirm waits may retain a
    fragment — `Confirm::NewRequest` — but the wait entered next, or the idle pass, handles it within the same
    step: `settle`.)  An input that is ignored (`setScript`, a rejected `.rx`, `.cut` …) keeps the state. -/
theorem step_pending (env : OEnv) (s : OState) (i : OInput) (h : s.pending = none ∨ isDead s = true) :
    (Outstation.step env s i).1.pending = none ∨ isDead (Outstation.step env s i).1 = true :=
  @Dnp3.Proofs.C04.step_pending env s i h

/-- the state after construction has no fragment pending -/
theorem start_pending (cfg : OCfg) (evMax : Nat) : (Outstation.start cfg evMax).1.pending = none :=
  @Dnp3.Proofs.C04.start_pending cfg evMax

/-- **C04.5 (`operate_needs_select`, full trace statement)**: along EVERY input list, from any state without a
    stored SELECT (in particular `Outstation.start`), a select-before-operate actuation at step `k` implies a step
    `j < k` that handled a unicast, well-formed, new function-3 request whose handler statuses were all 0,
    with byte-identical raw objects and sequence number one less (mod 16), no effective `.cut` in between,
    and the clock advanced by at most `stimeout` between the two requests [so far: the former
    `operate_needs_select_partial`]; AND every fragment delivered strictly between `j` and `k` is a
    retransmission of that SELECT that executed nothing: for every `j < m < k` and every fragment `f` step `m`
    works on, `f` is unicast, parses as a well-formed function-3 request with the SELECT's object octets and the
    SELECT's sequence number, and no executing callback (`isExec`: control / write / freeze / time / restart,
    begin/end fragment) appears in the outputs of step `m`.

    Hypotheses of the last conjunct (stated inside, the first ten conjuncts are unconditional):
    * `s0.pending = none`: the transport reader is empty in the initial state (true after construction,
      `start_pending`; afterwards it is empty before every step, `step_pending`).  A fragment left in the reader
      of an arbitrary `s0` carries an arbitrary frame id, unrelated to the frame counter.
    * `k < 2 ^ 32`: the frame counter is a `u32` that wraps (`step_frameId`; Rust `u32::wrapping_add`), so
      after exactly 2^32 delivered fragments the id "select's id + 1" comes round again — in the model as in the
      Rust code.  Runs shorter than 2^32 inputs cannot alias. -/
theorem operate_needs_select (env : OEnv) (s0 : OState) (h0 : s0.select = none) (inputs : List OInput)
    (k : Nat) (hk : k < inputs.length) (o : OOut) (ho : o ∈ outsAt env s0 inputs k hk) (hsbo : isSbo o = true) :
    ∃ (j : Nat) (hj : j < inputs.length), j < k ∧ ∃ fj cj hsj fk ck hsk raw,
      CurFrag env (stateAt env s0 inputs j) inputs[j] fj ∧
      parseRequest fj.data = .request cj 3 (.ok hsj) raw ∧ fj.broadcast = none ∧
      SelectAllZero (outsAt env s0 inputs j hj) ∧
      CurFrag env (stateAt env s0 inputs k) inputs[k] fk ∧
      parseRequest fk.data = .request ck 4 (.ok hsk) raw ∧ fk.broadcast = none ∧
      ck.seq = seq4Next cj.seq ∧
      stepNow (stateAt env s0 inputs k) inputs[k] - stepNow (stateAt env s0 inputs j) inputs[j] ≤
        s0.cfg.stimeout ∧
      (∀ (m : Nat) (hm : m < inputs.length), j < m → m < k → isCut inputs[m] = true →
        isDead (stateAt env s0 inputs m) = true) ∧
      (s0.pending = none → k < 2 ^ 32 →
        ∀ (m : Nat) (hm : m < inputs.length), j < m → m < k →
          ∀ f, CurFrag env (stateAt env s0 inputs m) inputs[m] f →
            ∃ cm hsm, parseRequest f.data = .request cm 3 (.ok hsm) raw ∧ f.broadcast = none ∧
              cm.seq = cj.seq ∧ ∀ o ∈ outsAt env s0 inputs m hm, isExec o = false) :=
  @Dnp3.Proofs.C04.operate_needs_select env s0 h0 inputs k hk o ho hsbo

/-- `operate_needs_select` applies to every run from the state after construction (`start_select`,
    `start_pending`); stated here for the SELECT step and the fragments in between only, the full conclusion is
    obtained by `operate_needs_select env _ (start_select cfg evMax) …` -/
theorem operate_needs_select_start (env : OEnv) (cfg : OCfg) (evMax : Nat) (inputs : List OInput)
    (k : Nat) (hk : k < inputs.length) (o : OOut)
    (ho : o ∈ outsAt env (Outstation.start cfg evMax).1 inputs k hk) (hsbo : isSbo o = true) :
    ∃ (j : Nat) (hj : j < inputs.length), j < k ∧ ∃ fj cj hsj raw,
      CurFrag env (stateAt env (Outstation.start cfg evMax).1 inputs j) inputs[j] fj ∧
      parseRequest fj.data = .request cj 3 (.ok hsj) raw ∧
      SelectAllZero (outsAt env (Outstation.start cfg evMax).1 inputs j hj) ∧
      (inputs.length < 2 ^ 32 →
        ∀ (m : Nat) (hm : m < inputs.length), j < m → m < k →
          ∀ f, CurFrag env (stateAt env (Outstation.start cfg evMax).1 inputs m) inputs[m] f →
            ∃ cm hsm, parseRequest f.data = .request cm 3 (.ok hsm) raw ∧ f.broadcast = none ∧
              cm.seq = cj.seq ∧ ∀ o ∈ outsAt env (Outstation.start cfg evMax).1 inputs m hm, isExec o = false) :=
  @Dnp3.Proofs.C04.operate_needs_select_start env cfg evMax inputs k hk o ho hsbo

/-- **D9 regression** (the former counterexample run): the OPERATE after a WRITE and its retransmission is NOT
    executed any more — the retransmitted WRITE takes the `repeatNonRead` branch, which no longer re-bases the
    stored SELECT's frame id (only a retransmission of the SELECT itself does). -/
theorem operate_after_intervening_write_rejected :
    sboCount (Outstation.run {} (Outstation.start {} 10).1 cexInputs).2 = 0 :=
  @Dnp3.Proofs.C04.operate_after_intervening_write_rejected

/-- without the retransmission the OPERATE is rejected as well -/
theorem operate_after_single_write_rejected :
    sboCount (Outstation.run {} (Outstation.start {} 10).1
      [.rx 1 1024 cexSelect, .rx 1 1024 cexWrite, .rx 1 1024 cexOperate]).2 = 0 :=
  @Dnp3.Proofs.C04.operate_after_single_write_rejected

/-- and SELECT directly followed by OPERATE (seq 1) is executed exactly once -/
theorem select_operate_executed_once_example :
    sboCount (Outstation.run {} (Outstation.start {} 10).1
      [.rx 1 1024 cexSelect, .rx 1 1024 cexOperate]).2 = 1 :=
  @Dnp3.Proofs.C04.select_operate_executed_once_example

/-- the legitimate path still works: SELECT, its byte-identical retransmission (which re-bases the select's frame
    id), OPERATE — executed exactly once -/
theorem select_retransmitted_then_operate_example :
    sboCount (Outstation.run {} (Outstation.start {} 10).1
      [.rx 1 1024 cexSelect, .rx 1 1024 cexSelect, .rx 1 1024 cexOperate]).2 = 1 :=
  @Dnp3.Proofs.C04.select_retransmitted_then_operate_example

/-- a stray fragment (here a solicited CONFIRM) between the SELECT and its retransmission breaks the chain: the
    retransmission does not directly follow the SELECT, the select is not re-based, the OPERATE is rejected -/
theorem select_stray_retransmitted_then_operate_rejected :
    sboCount (Outstation.run {} (Outstation.start {} 10).1
      [.rx 1 1024 cexSelect, .rx 1 1024 cexConfirm, .rx 1 1024 cexSelect, .rx 1 1024 cexOperate]).2 = 0 :=
  @Dnp3.Proofs.C04.select_stray_retransmitted_then_operate_rejected

end Dnp3.Props.C04
