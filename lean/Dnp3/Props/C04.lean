import Dnp3.Model.OutstationTrace
/-!
# C04 — OPERATE actuates only after its own matching, fresh, directly preceding SELECT
-/
namespace Dnp3.Props.C04
open Dnp3

/-- `SelectState::match_operate` accepts exactly when the sequence number is the next one, the
    transport frame id is the next one, the object octets are identical and the select is fresh -/
theorem match_operate_iff (sel : Sel) (timeout now seq frameId : Nat) (objs : List Nat) :
    matchOperate sel timeout now seq frameId objs = none ↔
      (seq = seq4Next sel.seq ∧ frameId = (sel.frameId + 1) % 4294967296 ∧ objs = sel.objects ∧
        now - sel.time ≤ timeout) := by
  unfold matchOperate
  constructor
  · intro h
    split at h
    · cases h
    · split at h
      · cases h
      · split at h
        · cases h
        · split at h
          · cases h
          · rename_i h1 h2 h3 h4
            refine ⟨?_, ?_, ?_, ?_⟩
            · exact (Decidable.not_not.mp h1).symm
            · exact (Decidable.not_not.mp h2).symm
            · exact (Decidable.not_not.mp h3).symm
            · omega
  · rintro ⟨h1, h2, h3, h4⟩
    subst h1 h2 h3
    simp
    omega

/-- the status reported on a mismatch: NO_SELECT (2), or TIMEOUT (1) when only the age fails -/
theorem match_operate_status (sel : Sel) (timeout now seq frameId : Nat) (objs : List Nat) (st : Nat)
    (h : matchOperate sel timeout now seq frameId objs = some st) : st = 2 ∨ st = 1 := by
  unfold matchOperate at h
  repeat' split at h
  all_goals simp_all

example : matchOperate ⟨3, 7, 1000, [12, 1, 0x17, 0]⟩ 5000 4000 4 8 [12, 1, 0x17, 0] = none := by decide

end Dnp3.Props.C04
