import Dnp3.Model.MasterSession
import Dnp3.Proofs.Master
/-!
# C16 — Commands succeed only if truly accepted; every request gets exactly one outcome

`CommandHeaders.compare` (model of `request.rs::CommandHeaders::compare` /
`CommandHeader::compare` / `compare_items`) characterised as an iff; the command task
(`tasks/command.rs`) reports success exactly when `compare` does, and the SBO OPERATE is
produced only from a faithful SELECT echo.  Objects are compared as octet strings: the
library compares decoded values, which coincides except for floating point (NaN ≠ NaN,
−0.0 = +0.0); the engine's generators stay away from both.
-/
namespace Dnp3.Props.C16
open Dnp3 Dnp3.Master

/-- `compare_items` succeeds exactly when the received objects are the sent ones, octet for
    octet, and every received status octet is SUCCESS -/
theorem compareItems_none_iff (sent recv : List (List Nat)) :
    compareItems sent recv = none ↔ (recv = sent ∧ ∀ r ∈ recv, r.getLastD 0 = 0) := by
  induction sent generalizing recv with
  | nil =>
    cases recv with
    | nil => simp [compareItems]
    | cons r rs => simp [compareItems]
  | cons s ss ih =>
    cases recv with
    | nil => simp [compareItems]
    | cons r rs =>
      by_cases h1 : r.getLastD 0 = 0
      · by_cases h2 : r = s
        · subst h2
          simp only [compareItems, h1, ne_eq, not_true_eq_false, if_false, ih, List.cons.injEq, true_and,
            List.forall_mem_cons]
        · simp only [compareItems, h1, ne_eq, not_true_eq_false, if_false, h2, not_false_eq_true, if_true,
            List.cons.injEq, false_and, reduceCtorEq]
      · simp only [compareItems, ne_eq, h1, not_false_eq_true, if_true, List.forall_mem_cons, false_and, and_false,
          reduceCtorEq]

/-- the first difference decides the error: a non-SUCCESS status is reported before a value
    mismatch of the same object -/
theorem compareItems_bad_status_first (s r : List Nat) (ss rs : List (List Nat)) (h : r.getLastD 0 ≠ 0) :
    compareItems (s :: ss) (r :: rs) = some (.badStatus (r.getLastD 0)) := by
  simp only [compareItems, ne_eq, h, not_false_eq_true, if_true]

/-- a header matches exactly when variation and index width agree and the objects are echoed -/
theorem compareHeader_none_iff (sent recv : ObjHdr) :
    compareHeader sent recv = none ↔
      ((sent.qual = 0x17 ∨ sent.qual = 0x28) ∧ recv.qual = sent.qual ∧ recv.group = sent.group ∧ recv.var = sent.var ∧
       (ctlObjSize sent.group sent.var).isSome = true ∧ hdrItems recv = hdrItems sent ∧
       ∀ r ∈ hdrItems recv, r.getLastD 0 = 0) := by
  unfold compareHeader
  split
  · rename_i h
    rw [compareItems_none_iff]
    constructor
    · rintro ⟨h1, h2⟩
      exact ⟨h.1, h.2.1, h.2.2.1, h.2.2.2.1, h.2.2.2.2, h1, h2⟩
    · rintro ⟨_, _, _, _, _, h1, h2⟩
      exact ⟨h1, h2⟩
  · rename_i h
    constructor
    · intro h'
      cases h'
    · rintro ⟨a, b, c, d, e, _, _⟩
      exact absurd ⟨a, b, c, d, e⟩ h

/-- `compare sent received = ok` ⇔ same number of headers and every pair matches -/
theorem compare_ok_iff (sent recv : List ObjHdr) :
    CommandHeaders.compare sent recv = none ↔
      (sent.length = recv.length ∧ ∀ p ∈ sent.zip recv, compareHeader p.1 p.2 = none) := by
  induction sent generalizing recv with
  | nil =>
    cases recv with
    | nil => simp [CommandHeaders.compare]
    | cons r rs => simp [CommandHeaders.compare]
  | cons s ss ih =>
    cases recv with
    | nil => simp [CommandHeaders.compare]
    | cons r rs =>
      simp only [CommandHeaders.compare]
      cases hc : compareHeader s r with
      | some e => simp [hc]
      | none => simp [hc, ih]

/-- a missing or an extra header is a header-count mismatch -/
theorem compare_header_count (sent recv : List ObjHdr) (h : CommandHeaders.compare sent recv = none) :
    sent.length = recv.length := ((compare_ok_iff sent recv).1 h).1

example :
    let h : ObjHdr := ⟨12, 1, 0x17, 1, 0, [3, 1, 1, 100, 0, 0, 0, 200, 0, 0, 0, 0]⟩
    CommandHeaders.compare [h] [h] = none := by decide

example :
    let h : ObjHdr := ⟨12, 1, 0x17, 1, 0, [3, 1, 1, 100, 0, 0, 0, 200, 0, 0, 0, 0]⟩
    let bad : ObjHdr := ⟨12, 1, 0x17, 1, 0, [3, 1, 1, 100, 0, 0, 0, 200, 0, 0, 0, 4]⟩
    CommandHeaders.compare [h] [bad] = some (.badStatus 4) := by decide

/-- `CommandTask::handle`: the user's future resolves `ok` only from a reply that satisfies
    `compare`, and only in the DIRECT_OPERATE / OPERATE step -/
theorem command_ok_only_by_echo (a : Acc) (dest uid : Nat) (st : CmdState) (objs : List Nat) (r : Resp)
    (h : MOut.complete uid .ok ∈ (handleResponse a dest (.command uid st objs) r).1.2)
    (hnot : MOut.complete uid .ok ∉ a.2) :
    st ≠ .select ∧ ∃ recv, r.objects = some recv ∧
      CommandHeaders.compare ((parseRespObjects objs.length objs).getD []) recv = none := by
  unfold handleResponse at h
  cases ho : r.objects with
  | none =>
    simp [ho, complete, emit] at h
    exact absurd h hnot
  | some recv =>
    simp only [ho] at h
    cases hc : CommandHeaders.compare ((parseRespObjects objs.length objs).getD []) recv with
    | some e =>
      simp [hc, complete, emit] at h
      rcases h with h | h
      · exact absurd h hnot
      · cases e <;> simp [cmdOutcome] at h
    | none =>
      cases st with
      | select =>
        simp [hc] at h
        exact absurd h hnot
      | operate => exact ⟨by simp, recv, rfl, hc⟩
      | direct => exact ⟨by simp, recv, rfl, hc⟩

/-- select-before-operate: the OPERATE step exists only as the continuation of a SELECT whose
    reply satisfied `compare`; it carries the same objects -/
theorem operate_only_after_faithful_select (a : Acc) (dest uid : Nat) (st : CmdState) (objs : List Nat) (r : Resp)
    (next : NonReadTask) (h : (handleResponse a dest (.command uid st objs) r).2 = .ok (some next)) :
    st = .select ∧ next = .command uid .operate objs ∧
      ∃ recv, r.objects = some recv ∧ CommandHeaders.compare ((parseRespObjects objs.length objs).getD []) recv = none := by
  unfold handleResponse at h
  cases ho : r.objects with
  | none => simp [ho] at h
  | some recv =>
    simp only [ho] at h
    cases hc : CommandHeaders.compare ((parseRespObjects objs.length objs).getD []) recv with
    | some e => simp [hc] at h
    | none =>
      cases st with
      | select =>
        simp [hc] at h
        exact ⟨rfl, h.symm, recv, rfl, hc⟩
      | operate => simp [hc] at h
      | direct => simp [hc] at h

/-- the OPERATE request goes out with the next sequence number (`send_request` increments the
    association's counter once per request) -/
theorem next_request_uses_next_seq (a : Acc) (dest func : Nat) (objs : List Nat) (x : Assoc) (seq : Nat)
    (hx : a.1.getAssoc dest = some x) (h : (sendRequest a dest func objs).2 = .ok seq) :
    seq = x.seq ∧ MOut.tx dest (requestBytes x.seq func objs) ∈ (sendRequest a dest func objs).1.2 := by
  unfold sendRequest at h ⊢
  simp only [hx] at h ⊢
  split at h
  · simp at h
  · rename_i hlen
    simp only [Except.ok.injEq] at h
    simp [hlen, h.symm, emit]

/-- every exit of `taskOnError` for a user request resolves its future exactly once -/
theorem user_task_error_completes_once (a : Acc) (dest uid : Nat) (t : Task) (e : TaskErr)
    (ht : t = .read (.single uid 0 false) ∨ (∃ st o, t = .nonRead (.command uid st o)) ∨ (∃ c, t = .nonRead (.restart uid c)) ∨
          (∃ o, t = .nonRead (.deadband uid o)) ∨ (∃ st, t = .nonRead (.timeSync (some uid) st)) ∨ t = .linkStatus (some uid)) :
    (taskOnError a dest t e).2 = a.2 ++ [.complete uid (.task e)] := by
  rcases ht with h | ⟨_, _, h⟩ | ⟨_, h⟩ | ⟨_, h⟩ | ⟨_, h⟩ | h <;> subst h <;> simp [taskOnError, complete, emit]

/-
`bounded_duration`: a request of n protocol steps completes within n response timeouts.  In the
model every wait mode carries a deadline `now + rto` that is set when the step's request goes out
(`beginTask`, `runSingle`, the next fragment of a READ series in `onFragment`), `onTime` ends the
task once `deadline ≤ now` (`timeout_ends_wait`), and no message from a handle moves a deadline
(`message_never_extends_wait`).  For the link status check (one step) this is
`link_check_deadline_at_start`, `link_check_deadline_fixed` and `link_check_bounded`: the check is
over at the latest one response timeout after its request.  (Until the repair of D24 the real
`run_link_status_task` re-armed its timeout after every processed message; the former
counterexample is kept as the regression `link_check_not_rearmed_regression`.)
-/

/-- a timed-out wait always ends the task: `onTime` never leaves a wait whose deadline has passed -/
theorem timeout_ends_wait (s : MState) (h : match s.mode with
      | .waitRead _ _ _ _ dl => dl ≤ s.now
      | .waitNonRead _ _ _ _ dl => dl ≤ s.now
      | .waitLink _ _ dl => dl ≤ s.now
      | _ => False) :
    ∀ a, onTime (s, []) ≠ .waiting a := by
  intro a
  unfold onTime
  cases hm : s.mode <;> simp [hm] at h ⊢ <;> simp [h]

/-- the three response waits -/
def isWait : Mode → Prop
  | .waitRead .. => True
  | .waitNonRead .. => True
  | .waitLink .. => True
  | _ => False

/-- no message from a handle (user request, poll management, association management, enable) extends
    a response wait: if the task is still waiting afterwards, it waits in the same mode — same
    request, same deadline -/
theorem message_never_extends_wait (s : MState) (m : Option Msg) (a' : Acc) (hw : isWait s.mode)
    (h : onMessage (s, []) m = .waiting a') : a'.1.mode = s.mode := by
  unfold onMessage at h
  cases m with
  | none =>
    cases hm : s.mode <;> simp [hm, isWait] at hw h
  | some msg =>
    have hpm := Proofs.Master.processMessage_mode (s, []) true msg
    cases hm : s.mode <;> simp only [hm, isWait] at hw h hpm
    all_goals
      generalize processMessage (s, []) true msg = res at h hpm
      obtain ⟨a1, b⟩ := res
      cases b
      · simp only at h hpm
        first
          | (injection h with h; subst h; exact hpm)
          | (split at h
             · cases h
             · injection h with h; subst h; exact hpm)
      · simp only at h hpm
        rw [hpm] at h
        cases h

example : isWait (.waitLink 1024 (some 1) 1000) := trivial

/-- the link status check gets its deadline when the request goes out: one response timeout ahead -/
theorem link_check_deadline_at_start (a : Acc) (dest : Nat) (uid : Option Nat) (x : Assoc)
    (hx : a.1.getAssoc dest = some x) :
    beginTask a dest (.linkStatus uid) =
      .waiting (setMode (emit a (.txLink 0xC9 dest 1)) (.waitLink dest uid (a.1.now + x.cfg.rto))) := by
  unfold beginTask
  simp only [hx]
  rfl

/-- while a link status check is outstanding no event moves its deadline: a message either ends the
    check (association gone, disable, shutdown) or leaves the wait untouched; a fragment, a link
    frame and the loss of the connection end it; time passing below the deadline changes nothing -/
theorem link_check_deadline_fixed (s : MState) (dest dl : Nat) (uid : Option Nat) (hm : s.mode = .waitLink dest uid dl) :
    (∀ m a', onMessage (s, []) m = .waiting a' → a'.1.mode = .waitLink dest uid dl) ∧
    (∀ src frag a', onFragment (s, []) src frag ≠ .waiting a') ∧
    (∀ src a', onLinkMsg (s, []) src ≠ .waiting a') ∧
    (∀ a', onTime (s, []) = .waiting a' → a' = (s, []) ∧ s.now < dl) ∧
    (∀ a', onEof (s, []) ≠ .waiting a') := by
  refine ⟨?_, ?_, ?_, ?_, ?_⟩
  · intro m a' h
    rw [← hm]
    exact message_never_extends_wait s m a' (by rw [hm]; trivial) h
  · intro src frag a'
    unfold onFragment
    simp only [hm]
    split <;> simp
  · intro src a'
    unfold onLinkMsg
    simp [hm]
  · intro a' h
    unfold onTime at h
    simp only [hm] at h
    split at h
    · cases h
    · injection h with h
      exact ⟨h.symm, by omega⟩
  · intro a'
    unfold onEof
    simp [hm]

/-- hence the check is bounded by one response timeout: whatever happened in between, once the
    clock reaches the deadline fixed at the start the check ends with `ResponseTimeout` -/
theorem link_check_bounded (s : MState) (dest dl : Nat) (uid : Option Nat) (hm : s.mode = .waitLink dest uid dl)
    (ms : Nat) (h : dl ≤ s.now + ms) :
    onTime ({ s with now := s.now + ms }, []) = .linkDone ({ s with now := s.now + ms }, []) uid (some .timeout) := by
  unfold onTime
  simp [hm, h]

/-- regression for D24 (repaired): a link status check with a 1000 ms timeout, an unrelated message
    at 999 ms; the check ends at 1000 ms with `ResponseTimeout` (before the repair it was still
    outstanding at 1998 ms with its deadline moved to 1999) -/
def d24State : MState :=
  { assocs := [{ addr := 1024, cfg := { rto := 1000, dis := 0, int := 0, en := 0 }, polls := [⟨0, 1, 60000, 60000⟩], pollId := 1 }],
    ring := [1024], mode := .waitLink 1024 (some 1) 1000, live := 1 }

theorem link_check_not_rearmed_regression :
    let s1 := (Master.step d24State (.tick 999)).1
    let r2 := Master.step s1 (.msg (.demand 1024 0))
    let r3 := Master.step r2.1 (.tick 1)
    r2.2 = [] ∧ (match r2.1.mode with | .waitLink _ _ dl => dl | _ => 0) = 1000 ∧
    r3.1.now = 1000 ∧ MOut.complete 1 (.task .timeout) ∈ r3.2 := by decide

end Dnp3.Props.C16
