import Dnp3.Props.DbComponent
import Dnp3.Proofs.OutstationC12
/-!
# C11 — A READ is answered with a complete, consistent snapshot as an orderly series

Database-component theorems (`Dnp3.Model.Database`) for EVERY database (points of all eight point
types), selection, capacity and series, restated verbatim from `Dnp3.Props.DbComponent` (namespace
`Dnp3.Props.Db`, which carries the satisfiability `example`s):

* `read_arms_well_formed`, `header_dispatch_own`: every arm of the generated `ReadHeader::from_all_objects /
  from_count / from_range` tables maps its variation to the type whose group it is, requests exactly that
  variation and keeps the request's count / range; every queued header reads the map of its own type;

* `series_covers_exactly_once`, `series_conserves`, `selected_header_is_range`, `response_octets`:
  over any series of response writes (any capacities) the concatenation of the static objects
  written is exactly the selected points of each header, once, ascending;
* `series_is_snapshot_partial`: values are the ones frozen at selection, for any series with updates
  and confirms in between but no `add`; the full statement is FALSE on the unchanged tree (D12,
  `series_is_snapshot_counterexample`: a point added inside a selected range while the series is
  open is reported with the constructor default it never had outside the adding transaction);
* `progress` (every single object fits: `FitsCap`; an octet string that does not fit is D15),
  `progress_fixed` (no octet strings: 22 octets suffice), `response_within_capacity`: every non-final
  fragment makes progress and fits.

The series discipline (FIR on the first fragment only, FIN on the last only, consecutive sequence
numbers, next fragment only after the matching confirm, new request / timeout / disconnect end the
series) is the session model's: `solWait_confirm_continues`, `continuation_correlated`, restated below from `Dnp3.Proofs.OutstationC12`.
-/
namespace Dnp3.Props.C11
open Dnp3 Dnp3.DbM Dnp3.DbProofs Dnp3.Props.Db

/-- every arm of `ReadHeader::from_all_objects / from_count / from_range` maps the variation to the type
    whose group it is, requests exactly that variation (none for variation 0) and keeps the request's
    count / range (`from_all_objects` has none to keep) -/
theorem read_arms_well_formed :
    Gen.DbT.readAllObjects.all (DbTables.armOk false) = true ∧ Gen.DbT.readCount.all (DbTables.armOk true) = true ∧
    Gen.DbT.readRange.all (DbTables.armOk true) = true :=
  @Dnp3.Props.Db.read_arms_well_formed 

/-- the header variants of `select_by_header`, `StaticDatabase::select`, `write_range` and the accessors of
    `impl Updatable` lead to the type they are named after; `select_class_zero` visits every type once, in
    the order of `enum Event` -/
theorem header_dispatch_own (t : PtType) :
    Gen.DbT.eventHdrTy t = t ∧ Gen.DbT.staticHdrTy t = t ∧ Gen.DbT.writeRangeTy t = t ∧
    Gen.DbT.updatable t = ⟨t, t, t, decide (t ≠ .octetString), t⟩ ∧ Gen.DbT.classZeroOrder = Gen.DbT.Ty.all :=
  @Dnp3.Props.Db.header_dispatch_own t

/-- the point maps are sorted by index (the `BTreeMap` order) in every reachable state -/
theorem static_sorted_invariant (ev : TyVec Nat) (cz : TyVec Bool) (sel : Option Nat) (ops : List DbOpX) :
    StaticSorted (runX (Db.newCfg ev cz sel) ops) :=
  @Dnp3.Props.Db.static_sorted_invariant ev cz sel ops

/-- what a queued READ header stands for: every existing point of its range exactly once, in
    ascending index order, with the point's `selected` (snapshot) cell -/
theorem selected_header_is_range (db : Db) (hs : StaticSorted db) (it : SelItem) :
    (itemObjs db it).Pairwise (fun a b => a.idx < b.idx) ∧
    (itemObjs db it).map (·.idx) = ((mapOf db it).filter (fun p => inRange it p.1)).map (·.1) ∧
    (∀ k var, it.kind = .typed k var →
      (itemObjs db it).map (fun o => (o.idx, o.m)) =
        ((mapOf db it).filter (fun p => inRange it p.1)).map (fun p => (p.1, p.2.selected))) :=
  @Dnp3.Props.Db.selected_header_is_range db hs it

/-- `series_covers_exactly_once`: in a series of writes (any capacities), interleaved with
    updates and confirms, concatenating the static objects of the successive responses until the
    selection is exhausted (`complete`) yields exactly the objects the request selected — header by
    header, each existing selected point exactly once in ascending index order
    (`selected_header_is_range`): resumption never repeats or skips -/
theorem series_covers_exactly_once (db : Db) (hs : StaticSorted db) (ops : List SOp)
    (hend : (seriesEnd db ops).queue = []) :
    seriesObjs db ops = (db.queue.map (itemObjs db)).flatten :=
  @Dnp3.Props.Db.series_covers_exactly_once db hs ops hend

/-- … and at every intermediate point of the series: emitted so far ++ still selected = selected -/
theorem series_conserves (db : Db) (hs : StaticSorted db) (ops : List SOp) :
    seriesObjs db ops ++ ((seriesEnd db ops).queue.map (itemObjs (seriesEnd db ops))).flatten =
      (db.queue.map (itemObjs db)).flatten :=
  @Dnp3.Props.Db.series_conserves db hs ops

/-- the octets of one response are the event encodings followed by the encodings of the static
    objects counted above (one range-header run per queue entry) -/
theorem response_octets (db : Db) (hs : StaticSorted db) (cap : Nat) :
    (db.writeResponse cap).2.1 =
      encodeEvents none (db.writeEvents cap).2.1 ++ (writeStaticObjs db cap).flatMap (encodeStatic none) :=
  @Dnp3.Props.Db.response_octets db hs cap

/-- `series_is_snapshot`, partial (no `add` during the series): a READ of one static range on an
    idle database, answered over any number of fragments with updates / confirms in between,
    reports exactly the points that existed in the range when the request was processed, ascending,
    each once, with the value / flags they had at that moment -/
theorem series_is_snapshot_partial (db : Db) (hs : StaticSorted db) (hidle : db.queue = [])
    (hroom : db.queue.length ≠ db.selCap)
    (t : PtType) (var : Option Nat) (a b : Nat) (ops : List SOp)
    (hend : (seriesEnd (db.selectStatic t var (some (a, b))).1 ops).queue = []) :
    (seriesObjs (db.selectStatic t var (some (a, b))).1 ops).map (fun o => (o.idx, o.m)) =
      ((db.map t).filter (fun p => decide (a ≤ p.1) && decide (p.1 ≤ b))).map (fun p => (p.1, p.2.current)) :=
  @Dnp3.Props.Db.series_is_snapshot_partial db hs hidle hroom t var a b ops hend

/-- D12: the series reports index 3 with value 0 / flags RESTART — a value the point never
    had outside the adding transaction, for a point that did not exist when the request was processed -/
theorem series_is_snapshot_counterexample :
    let db0 := run (Db.new 0 none) d12Setup
    let db1 := step db0 (.write 12)
    let db2 := run db1 [.add .analog 3 0, .update .analog 3 99 1 4]
    (writeStaticObjs db0 12).flatten ++ (writeStaticObjs db2 300).flatten ≠ (db0.queue.map (itemObjs db0)).flatten ∧
    ({ idx := 3, g := 30, v := 1, m := { value := 0, flags := 2, time := 0 } } : SObj) ∈ (writeStaticObjs db2 300).flatten ∧
    (db2.writeResponse 300).2.2.2 = true :=
  @Dnp3.Props.Db.series_is_snapshot_counterexample 

/-- `progress`: when every single object with its header fits the buffer (`FitsCap`: 22 octets suffice for
    every fixed-size variation of the seven fixed-size types; an octet string needs its length + 7), a
    response that is not complete carries at least one object — so a series terminates.  An octet string
    that does not fit makes the series an endless run of empty fragments (D15) -/
theorem progress (db : Db) (cap : Nat) (hfit : FitsCap db cap) (hinc : (db.writeResponse cap).2.2.2 = false) :
    (db.writeEvents cap).2.1 ≠ [] ∨ (writeStaticObjs db cap).flatten ≠ [] :=
  @Dnp3.Props.Db.progress db cap hfit hinc

/-- … for a database without octet strings 22 octets are enough -/
theorem progress_fixed (db : Db) (cap : Nat) (hcap : 22 ≤ cap) (hev : ∀ r ∈ db.events, r.ty ≠ .octetString)
    (hpt : db.map .octetString = []) (hinc : (db.writeResponse cap).2.2.2 = false) :
    (db.writeEvents cap).2.1 ≠ [] ∨ (writeStaticObjs db cap).flatten ≠ [] :=
  @Dnp3.Props.Db.progress_fixed db cap hcap hev hpt hinc

/-- a response never exceeds the space left in the transmit buffer (the incremental cost the
    writers charge is exactly the length of the octets they produce) -/
theorem response_within_capacity (db : Db) (cap : Nat) :
    (db.writeResponse cap).2.1.length ≤ cap ∧
    ∀ c1 c2 c3, (db.writeUnsolicited c1 c2 c3 cap).2.1.length ≤ cap :=
  @Dnp3.Props.Db.response_within_capacity db cap

/-! ## Series discipline (session model; restated from `Dnp3.Proofs.OutstationC12`) -/

section Session
open Dnp3.Proofs.C12

/-- CONFIRM in a solicited confirm wait: it is never answered itself; with the expected sequence
    number on a non-final fragment it lets the series continue with `solContinuation` -/
theorem solWait_confirm_continues (a : Acc) (series : Series) (dl : Nat) (cont : SolCont) (f : Frag) (ctrl : AppCtrl)
    (objects : Except Nat (List ObjHdr)) (raw : List Nat)
    (hp : a.1.pending = some f) (hreq : parseRequest f.data = .request ctrl 0 objects raw)
    (hm : a.1.cfg.anymaster = true ∨ f.src = a.1.cfg.master) (hu : ctrl.uns = false)
    (hs : ctrl.seq = series.ecsn) (hfin : series.fin = false) :
    solWaitOnFragment a series dl cont = solContinuation a f series cont :=
  @Dnp3.Proofs.C12.solWait_confirm_continues a series dl cont f ctrl objects raw hp hreq hm hu hs hfin

/-- **continuation fragments are correlated**: the fragment `solContinuation` transmits carries
    `seq4Next` of the confirmed sequence number, FIR clear, UNS clear, function 0x81, to the confirmer -/
theorem continuation_correlated {s : OState} {out : List OOut} {ecsn dst : Nat} {a2 : Acc} {r2 : Resp}
    (hw : writeSolicited ((formatReadResponse s false (seq4Next ecsn) 0).1, out) dst
            (formatReadResponse s false (seq4Next ecsn) 0).2.1 = some (a2, r2)) :
    SentOne out a2.2 dst r2 ∧ r2.func = 0x81 ∧ r2.ctrl.seq = seq4Next ecsn ∧ r2.ctrl.fir = false ∧
      r2.ctrl.uns = false :=
  @Dnp3.Proofs.C12.continuation_correlated s out ecsn dst a2 r2 hw


end Session

end Dnp3.Props.C11
