import Dnp3.Model.OutstationTrace
import Dnp3.Proofs.OutstationC12
/-!
# C12 — Outstation replies are well-formed, correlated, bounded, and report rejections

Property theorems over the outstation session model for ALL states / requests / histories.
Definitions used in the statements (`Inv`, `DbContract`, `TxShape`, `SolResp`, `UnsolResp`,
`SentOne`, `HasBits`, `Correlated`, `CbOnly`, `Good`) are in `Dnp3.Proofs.OutstationC12`; the
statements are restated here verbatim and proved by the theorems of that file.
Known defect (kept as an exact characterisation + counterexamples): D13 (SELECT / OPERATE / DIRECT_OPERATE
echo silently truncated).  D1 (an OPERATE whose echo overflows panicked the task) is repaired:
`handleControls_total`, `operate_echo_overflow_clean`.  D7 (WRITE reported only the last
header's result) is repaired: `write_rejection_flagged` is the full statement.
-/
namespace Dnp3.Props.C12
open Dnp3 Dnp3.Proofs.C12

/-- every unsolicited response header has UNS, FIR, FIN and CON and function 0x82 -/
theorem unsolicited_header_shape (seq size : Nat) (h : seq < 16) :
    (unsolHeader seq size).func = 0x82 ∧ ((unsolHeader seq size).ctrl.toNat &&& 0xF0) = 0xF0 ∧
    ((unsolHeader seq size).ctrl.toNat &&& 0x0F) = seq := by
  have : ∀ s : Fin 16, ((AppCtrl.mk true true true true s.val).toNat &&& 0xF0) = 0xF0 ∧
      ((AppCtrl.mk true true true true s.val).toNat &&& 0x0F) = s.val := by decide
  exact ⟨rfl, this ⟨seq, h⟩⟩

/-- an empty solicited response has UNS clear, FIR and FIN set, the request's sequence number
    and carries the given IIN2 -/
theorem empty_solicited_shape (seq iin2 : Nat) (h : seq < 16) :
    (emptySolicited seq iin2).func = 0x81 ∧ ((emptySolicited seq iin2).ctrl.toNat &&& 0x10) = 0 ∧
    ((emptySolicited seq iin2).ctrl.toNat &&& 0xC0) = 0xC0 ∧
    ((emptySolicited seq iin2).ctrl.toNat &&& 0x0F) = seq ∧ (emptySolicited seq iin2).iin2 = iin2 := by
  have : ∀ s : Fin 16, ((AppCtrl.mk true true false false s.val).toNat &&& 0x10) = 0 ∧
      ((AppCtrl.mk true true false false s.val).toNat &&& 0xC0) = 0xC0 ∧
      ((AppCtrl.mk true true false false s.val).toNat &&& 0x0F) = s.val := by decide
  exact ⟨rfl, (this ⟨seq, h⟩).1, (this ⟨seq, h⟩).2.1, (this ⟨seq, h⟩).2.2, rfl⟩

/-- the invariant is preserved by every step, from ANY state satisfying it -/
theorem step_preserves_inv {cfg : OCfg} (hdb : DbContract) (env : OEnv) {s : OState} (h : Inv cfg s) (inp : OInput) :
    Inv cfg (Outstation.step env s inp).1 :=
  @Dnp3.Proofs.C12.step_preserves_inv cfg hdb env s h inp

/-- **tx_shape**: every `.tx` output of a step from a state satisfying the invariant is well-formed -/
theorem step_tx_shape {cfg : OCfg} (hdb : DbContract) (env : OEnv) {s : OState} (h : Inv cfg s) (inp : OInput)
    (dst : Nat) (b : List Nat) (hb : OOut.tx dst b ∈ (Outstation.step env s inp).2) : TxShape cfg dst b :=
  @Dnp3.Proofs.C12.step_tx_shape cfg hdb env s h inp dst b hb

theorem reachable_inv {cfg : OCfg} (hdb : DbContract) {evMax : Nat} {env : OEnv} (hsol : 10 ≤ cfg.sol)
    (hunsol : 4 ≤ cfg.unsol) {s : OState} (hr : Outstation.Reachable cfg evMax env s) : Inv cfg s :=
  @Dnp3.Proofs.C12.reachable_inv cfg hdb evMax env hsol hunsol s hr

/-- whole-trace form: construct with any configuration whose buffers have the library's minimum
    sizes (the library enforces 249), run any inputs: every transmitted fragment is well-formed -/
theorem trace_tx_shape {cfg : OCfg} (hdb : DbContract) (env : OEnv) (evMax : Nat) (hsol : 10 ≤ cfg.sol)
    (hunsol : 4 ≤ cfg.unsol) (inputs : List OInput) :
    ∀ outs ∈ (Outstation.start cfg evMax).2 :: (Outstation.run env (Outstation.start cfg evMax).1 inputs).2,
      ∀ dst b, OOut.tx dst b ∈ outs → TxShape cfg dst b :=
  @Dnp3.Proofs.C12.trace_tx_shape cfg hdb env evMax hsol hunsol inputs

/-- the database model (`Dnp3.Model.Database`) meets the contract every theorem here assumes of it:
    response writers never exceed the capacity they are given (`Dnp3.Proofs.Database`) -/
theorem db_contract : DbContract := Dnp3.Proofs.C12.dbContract

/-- `trace_tx_shape` with the database contract discharged: unconditional over the whole model -/
theorem trace_tx_shape_closed {cfg : OCfg} (env : OEnv) (evMax : Nat) (hsol : 10 ≤ cfg.sol)
    (hunsol : 4 ≤ cfg.unsol) (inputs : List OInput) :
    ∀ outs ∈ (Outstation.start cfg evMax).2 :: (Outstation.run env (Outstation.start cfg evMax).1 inputs).2,
      ∀ dst b, OOut.tx dst b ∈ outs → TxShape cfg dst b :=
  trace_tx_shape db_contract env evMax hsol hunsol inputs

/-- **solicited_correlated** (idle path): whatever `handle_one_request_from_idle` appends to the
    output is callbacks plus at most one transmission, and that transmission is correlated with
    the request (this includes the echo of a stored response for a repeated request, by the invariant) -/
theorem solicited_correlated_idle {cfg : OCfg} (hdb : DbContract) {a a' : Acc} (h : Good cfg a) {f : Frag}
    {ctrl : AppCtrl} {func : Nat} {objects : Except Nat (List ObjHdr)} {raw : List Nat}
    (hreq : parseRequest f.data = .request ctrl func objects raw) {series : Option Series}
    (hh : handleRequestFromIdle a f ctrl func objects raw = some (a', series)) :
    ∃ l, a'.2 = a.2 ++ l ∧ (∀ o ∈ l, Correlated f.src ctrl func o) ∧ (txFrags l).length ≤ 1 :=
  @Dnp3.Proofs.C12.solicited_correlated_idle cfg hdb a a' h f ctrl func objects raw hreq series hh

/-- D14 repaired: a repeat of the last non-READ request (same sequence number, same octets) handled from idle
    is answered with the STORED response record verbatim (`repeat_solicited`: no IIN re-OR, no forced CON) —
    exactly one transmission, to the requester; nothing is executed again; the record of the request stays as it
    is, and the series recorded with it is the confirm wait that is entered again -/
theorem idle_repeat_echo_verbatim {a a' : Acc} {f : Frag} {ctrl : AppCtrl} {func : Nat}
    {objects : Except Nat (List ObjHdr)} {raw : List Nat} {series : Option Series} {r : Resp}
    (hc : classify a.1 f ctrl func objects = .repeatNonRead (some r))
    (hh : handleRequestFromIdle a f ctrl func objects raw = some (a', series)) :
    SentOne a.2 a'.2 f.src r ∧ a'.1.lastReq = a.1.lastReq ∧ series = a.1.lastReq.bind (·.series) :=
  @Dnp3.Proofs.C12.idle_repeat_echo_verbatim a a' f ctrl func objects raw series r hc hh

/-- **continuation fragments are correlated**: the fragment `solContinuation` transmits carries
    `seq4Next` of the confirmed sequence number, FIR clear, UNS clear, function 0x81, to the confirmer -/
theorem continuation_correlated {s : OState} {out : List OOut} {ecsn dst : Nat} {a2 : Acc} {r2 : Resp}
    (hw : writeSolicited ((formatReadResponse s false (seq4Next ecsn) 0).1, out) dst
            (formatReadResponse s false (seq4Next ecsn) 0).2.1 = some (a2, r2)) :
    SentOne out a2.2 dst r2 ∧ r2.func = 0x81 ∧ r2.ctrl.seq = seq4Next ecsn ∧ r2.ctrl.fir = false ∧
      r2.ctrl.uns = false :=
  @Dnp3.Proofs.C12.continuation_correlated s out ecsn dst a2 r2 hw

/-- **unsolicited_numbering** (new responses): when `check_unsolicited` starts a series it sends one
    unsolicited response (0x82, FIR FIN CON UNS) numbered with the current `unsolSeq`, to the
    configured master, and advances `unsolSeq` by `seq4Next`; when it starts none, nothing is
    transmitted and the counter is unchanged -/
theorem unsolicited_numbering {a : Acc} {x : Acc ⊕ (Acc × NextIdle)} (hc : checkUnsolicited a = some x) :
    match x with
    | .inl a' => ∃ r rest isNull retries,
        a'.2 = a.2 ++ [.tx a.1.cfg.master (respHeader r ++ rest), .cb (.unsolWait a.1.unsolSeq)] ∧
        r.ctrl = ⟨true, true, true, true, a.1.unsolSeq⟩ ∧ r.func = 0x82 ∧
        a'.1.unsolSeq = seq4Next a.1.unsolSeq ∧
        a'.1.mode = .unsolWait r isNull retries (a.1.now + a.1.cfg.ctimeout)
    | .inr (a', _) => a'.2 = a.2 ∧ a'.1.unsolSeq = a.1.unsolSeq :=
  @Dnp3.Proofs.C12.unsolicited_numbering a x hc

/-- **unsolicited retries are verbatim**: a retry after a confirm timeout re-sends the stored
    response record unchanged (same control octet, same function, same size) to the configured
    master, keeps it stored, and does not touch the numbering -/
theorem unsolicited_retry_verbatim (a : Acc) (resp : Resp) (isNull : Bool) (retries : Option Nat)
    (hd : a.1.deferred = none) (hr : retries ≠ some 0) :
    ∃ a' rest retries', unsolWaitTimeout a resp isNull retries = .blocked a' ∧
      a'.2 = a.2 ++ [.cb (.unsolTimeout resp.ctrl.seq true), .tx a.1.cfg.master (respHeader resp ++ rest)] ∧
      a'.1.mode = .unsolWait resp isNull retries' (a.1.now + a.1.cfg.ctimeout) ∧
      a'.1.unsolSeq = a.1.unsolSeq :=
  @Dnp3.Proofs.C12.unsolicited_retry_verbatim a resp isNull retries hd hr

/-- the no-response functions never panic except … never: `handle_non_read` always returns -/
theorem silent_functions_nonread_total (a : Acc) (func seq frameId : Nat) (hs : List ObjHdr) (raw : List Nat)
    (hf : func = 6 ∨ func = 8 ∨ func = 10 ∨ func = 12) :
    ∃ a', handleNonRead a func seq frameId hs raw = some (a', none) :=
  @Dnp3.Proofs.C12.silent_functions_nonread_total a func seq frameId hs raw hf

/-- **silent_functions** (idle path, `_partial`: the request is not byte-identical and
    same-sequence with the stored previous request): a unicast request with a no-response function
    code whose objects parse transmits nothing — only application callbacks are emitted — and no
    confirm wait is entered.
    Missing for the full statement: for a *repeat* of the previous request the session echoes the
    stored response record; that record is `none` when the previous identical fragment was handled
    as a no-response function, but proving it needs an extra invariant tying `lastReq.response` to
    the function code inside `lastReq.frag` (the stored record can be `some` only if the identical
    earlier fragment was answered, which for these function codes happens only on the malformed
    path, and malformed fragments are classified before the repeat check). -/
theorem silent_functions_partial {a a' : Acc} {f : Frag} {ctrl : AppCtrl} {func : Nat} {hs : List ObjHdr}
    {raw : List Nat} {series : Option Series} (hf : func = 6 ∨ func = 8 ∨ func = 10 ∨ func = 12)
    (hb : f.broadcast = none)
    (hnodup : ∀ lr, a.1.lastReq = some lr → ¬ (lr.seq = ctrl.seq ∧ lr.frag = f.data))
    (hh : handleRequestFromIdle a f ctrl func (.ok hs) raw = some (a', series)) :
    series = none ∧ CbOnly a.2 a' ∧ txFrags a'.2 = txFrags a.2 :=
  @Dnp3.Proofs.C12.silent_functions_partial a a' f ctrl func hs raw series hf hb hnodup hh

/-- (a) a unicast fragment (`broadcast = false`, the third argument: `f.broadcast.isSome` of the fragment,
    `popRequest_headerError`) whose application header is rejected (unknown function code, a response
    function code, FIR/FIN not both set, UNS on a non-confirm) is answered — when the IIN can be
    computed at all — with exactly one solicited response carrying the request's sequence number
    and IIN2.0 NO_FUNC_CODE_SUPPORT -/
theorem rejection_flagged_header {a : Acc} {dst seq : Nat} {x : OState × Nat × Nat}
    (hg : getResponseIin a.1 = some x) :
    ∃ a' r, writeErrorResponse a dst false (some seq) = some a' ∧ SentOne a.2 a'.2 dst r ∧
      r.func = 0x81 ∧ r.ctrl.seq = seq ∧ r.ctrl.fir = true ∧ r.ctrl.fin = true ∧ r.ctrl.uns = false ∧
      HasBits r.iin2 iin2NoFunc :=
  @Dnp3.Proofs.C12.rejection_flagged_header a dst seq x hg

/-- (a, complement; D6 repaired) a BROADCAST fragment whose application header is rejected is never answered:
    nothing is transmitted, nothing changes, and the session does not panic -/
theorem rejection_header_broadcast_silent (a : Acc) (dst : Nat) (seq : Option Nat) :
    writeErrorResponse a dst true seq = some a :=
  @Dnp3.Proofs.C12.rejection_header_broadcast_silent a dst seq

/-- the header-error path is taken exactly for `parseRequest = .headerError` of a fragment from an accepted
    master (`hm`; D6 repaired: the fragments of any other master are dropped whatever they contain,
    `popRequest_foreign`); the `Bool` handed on says whether the fragment was a broadcast -/
theorem popRequest_headerError {s : OState} {f : Frag} {seq : Nat} (hp : s.pending = some f)
    (hm : s.cfg.anymaster = true ∨ f.src = s.cfg.master)
    (he : parseRequest f.data = .headerError seq) :
    popRequest s = (s, .error f.src f.broadcast.isSome (some seq)) :=
  @Dnp3.Proofs.C12.popRequest_headerError s f seq hp hm he

/-- (complement; D6 repaired) a pending fragment of a foreign master — well-formed request or header-level
    error alike — is dropped: nothing is handed to the session, so nothing is answered -/
theorem popRequest_foreign {s : OState} {f : Frag} (hp : s.pending = some f)
    (ha : s.cfg.anymaster = false) (hm : f.src ≠ s.cfg.master) :
    popRequest s = ({ s with pending := none }, .nothing) :=
  @Dnp3.Proofs.C12.popRequest_foreign s f hp ha hm

theorem parseObjects_error (isRead : Bool) (fuel : Nat) (d : List Nat) (e : Nat)
    (h : parseObjects isRead fuel d = .error e) :
    (e = iin2NoFunc ∨ e = iin2ObjUnknown ∨ e = iin2ParamError) ∧ e ≠ 0 :=
  @Dnp3.Proofs.C12.parseObjects_error isRead fuel d e h

/-- (b) a unicast request whose object headers do not parse is answered with the parse error's
    IIN2 bit (`e ∈ {1,2,4}`, nonzero by `parseObjects_error`) and the request's sequence number -/
theorem rejection_flagged_objects {a a' : Acc} {f : Frag} {ctrl : AppCtrl} {func : Nat} {e : Nat}
    {raw : List Nat} {series : Option Series} (hf : func ≠ 0) (hb : f.broadcast = none)
    (hh : handleRequestFromIdle a f ctrl func (.error e) raw = some (a', series)) :
    ∃ r, SentOne a.2 a'.2 f.src r ∧ r.func = 0x81 ∧ r.ctrl.seq = ctrl.seq ∧ r.ctrl.fir = true ∧
      r.ctrl.fin = true ∧ r.ctrl.uns = false ∧ HasBits r.iin2 e :=
  @Dnp3.Proofs.C12.rejection_flagged_objects a a' f ctrl func e raw series hf hb hh

/-- (c) a function code the session does not implement (default branch of `handle_non_read`:
    anything but 2–14, 20, 21, 23, 24) yields NO_FUNC_CODE_SUPPORT -/
theorem rejection_flagged_unsupported (a : Acc) (func seq frameId : Nat) (hs : List ObjHdr) (raw : List Nat)
    (hf : func ∉ [2, 3, 4, 5, 6, 7, 8, 9, 10, 11, 12, 13, 14, 20, 21, 23, 24]) :
    ∃ r, handleNonRead a func seq frameId hs raw = some (a, some r) ∧ r.ctrl.seq = seq ∧
      HasBits r.iin2 iin2NoFunc :=
  @Dnp3.Proofs.C12.rejection_flagged_unsupported a func seq frameId hs raw hf

/-- (d) SELECT / OPERATE / DIRECT_OPERATE containing a header that is not a control header:
    nothing is executed, PARAMETER_ERROR -/
theorem rejection_flagged_controls (a : Acc) (func seq frameId : Nat) (hs : List ObjHdr) (raw : List Nat)
    (hf : func = 3 ∨ func = 4 ∨ func = 5) (hbad : hs.all isControlHdr = false) :
    ∃ r, handleNonRead a func seq frameId hs raw = some (a, some r) ∧ r.ctrl.seq = seq ∧
      HasBits r.iin2 iin2ParamError :=
  @Dnp3.Proofs.C12.rejection_flagged_controls a func seq frameId hs raw hf hbad

/-- exact characterisation of `handle_write` (D7 repaired, `iin2 |= …`): every further header ORs its
    result into the response IIN2 -/
theorem write_accumulates (a : Acc) (seq : Nat) (pre : List ObjHdr) (h : ObjHdr) :
    (handleWrite a seq (pre ++ [h])).2.iin2 =
      (handleWrite a seq pre).2.iin2 ||| (handleWriteHeader (handleWrite a seq pre).1 h).2 :=
  @Dnp3.Proofs.C12.write_accumulates a seq pre h

/-- (f) **write_rejection_flagged** (full statement; was `_partial` + counterexample while D7 stood):
    for ANY header `h` of a WRITE — at any position, whatever precedes and follows it — every IIN2
    bit that handling `h` returns (PARAMETER_ERROR, NO_FUNC_CODE_SUPPORT; in the state the preceding
    headers left) is set in the IIN2 of the response record -/
theorem write_rejection_flagged (a : Acc) (seq : Nat) (pre : List ObjHdr) (h : ObjHdr) (post : List ObjHdr)
    (m : Nat) (hrej : HasBits (handleWriteHeader (handleWrite a seq pre).1 h).2 m) :
    HasBits (handleWrite a seq (pre ++ h :: post)).2.iin2 m :=
  @Dnp3.Proofs.C12.write_rejection_flagged a seq pre h post m hrej

/-- (f) at the level of `handle_non_read`: the response record of a WRITE request carries the
    request's sequence number and every IIN2 bit any of its headers returned -/
theorem rejection_flagged_write (a : Acc) (seq frameId : Nat) (pre : List ObjHdr) (h : ObjHdr) (post : List ObjHdr)
    (raw : List Nat) (m : Nat) (hrej : HasBits (handleWriteHeader (handleWrite a seq pre).1 h).2 m) :
    ∃ a' r, handleNonRead a 2 seq frameId (pre ++ h :: post) raw = some (a', some r) ∧ r.ctrl.seq = seq ∧
      HasBits r.iin2 m :=
  @Dnp3.Proofs.C12.rejection_flagged_write a seq frameId pre h post raw m hrej

/-- regression instance (the former D7 counterexample `c1 02 | 50 01 00 04 04 00 | 50 01 00 07 07 00`):
    the first header (write IIN1.4) is rejected with PARAMETER_ERROR, the second (clear RESTART)
    succeeds, and the response record has PARAMETER_ERROR set — in ANY state -/
theorem write_rejection_flagged_d7 (a : Acc) :
    HasBits (handleWrite a 1 [d7Hdr1, d7Hdr2]).2.iin2 iin2ParamError :=
  @Dnp3.Proofs.C12.write_rejection_flagged_d7 a

/-- the control functions always return (no `unwrap` on a `WriteError` is left: D1 repaired) -/
theorem handleControls_total (a : Acc) (func seq frameId : Nat) (hs : List ObjHdr) (raw : List Nat) :
    ∃ a' ro, handleControls a func seq frameId hs raw = some (a', ro) :=
  @Dnp3.Proofs.C12.handleControls_total a func seq frameId hs raw

/-- **D1 repaired** (was `operate_echo_overflow_panics`: `handleControls a 4 … = none ↔ overflow`): an OPERATE
    whose headers are all control headers and whose echo does not fit the solicited transmit buffer is answered
    like a SELECT / DIRECT_OPERATE in the same situation (`select_echo_overflow_clean`, D13): the truncated echo
    (`size = 4 + out.length`), the request's sequence number and a clean IIN2; the select state is the one the
    control run left (the session does not touch it) -/
theorem operate_echo_overflow_clean (a : Acc) (seq frameId : Nat) (hs : List ObjHdr) (raw : List Nat)
    (hall : hs.all isControlHdr = true)
    (hov : (operateRun a seq frameId hs raw).overflow = true) :
    ∃ a' r, handleControls a 4 seq frameId hs raw = some (a', some r) ∧ r.iin2 = 0 ∧ r.ctrl.seq = seq ∧
      r.size = 4 + (operateRun a seq frameId hs raw).out.length ∧
      a'.1.select = (ctlFinish (operateRun a seq frameId hs raw)).acc.1.select :=
  @Dnp3.Proofs.C12.operate_echo_overflow_clean a seq frameId hs raw hall hov

/-- regression instance (the former D1 counterexample): with the minimum transmit buffer (249 octets) an OPERATE carrying 62
    g41v2 commands (echo 4 + 62·4 = 252 > 245 octets), here without a SELECT, used to panic the task; it is
    answered with the NO_SELECT echo of 60 of the 62 objects (4 + 4 + 60·4 = 248 octets) and IIN2 = 0.
    Evaluated; involves no database function. -/
theorem operate_echo_truncated_d1 :
    (handleControls (OState.init { sol := 249 } 0, []) 4 1 0 [d1Header] []).map
        (fun p => p.2.map (fun r => (r.iin2, r.size))) = some (some (0, 248)) :=
  @Dnp3.Proofs.C12.operate_echo_truncated_d1

/-- **D13**: SELECT and DIRECT_OPERATE whose echo does not fit do not fail: they answer with the
    truncated echo (`size = 4 + out.length`) and a clean IIN2 from the handler (0), even when a
    status was PARAMETER-worthy; SELECT does not arm the select state -/
theorem select_echo_overflow_clean (a : Acc) (func seq frameId : Nat) (hs : List ObjHdr) (raw : List Nat)
    (hf : func = 3 ∨ func = 5) (hall : hs.all isControlHdr = true)
    (hov : (ctlAll (some (if func = 3 then CtlKind.select else CtlKind.dop)) 0 a.1.cfg.maxctl hs
              { acc := a, cap := a.1.cfg.sol - 4 }).overflow = true) :
    ∃ a' r, handleControls a func seq frameId hs raw = some (a', some r) ∧ r.iin2 = 0 ∧ r.ctrl.seq = seq ∧
      r.size = 4 + (ctlAll (some (if func = 3 then CtlKind.select else CtlKind.dop)) 0 a.1.cfg.maxctl hs
              { acc := a, cap := a.1.cfg.sol - 4 }).out.length ∧
      (func = 3 → a'.1.select = (ctlFinish (ctlAll (some CtlKind.select) 0 a.1.cfg.maxctl hs
              { acc := a, cap := a.1.cfg.sol - 4 })).acc.1.select) :=
  @Dnp3.Proofs.C12.select_echo_overflow_clean a func seq frameId hs raw hf hall hov

/-- **freeze_at_time_rejection_flagged**: the response of FREEZE_AT_TIME (function 11) carries the request's
    sequence number and every IIN2 bit with which ANY of its headers was rejected — at any position, whatever
    follows it (`freezeAtRej`: PARAMETER_ERROR for a time-and-interval object g50v2 whose count is not 1 and for a
    header with no valid g50v2 before it, the freeze verdict of the header otherwise) -/
theorem freeze_at_time_rejection_flagged (a : Acc) (seq frameId : Nat) (pre : List ObjHdr) (h : ObjHdr)
    (post : List ObjHdr) (raw : List Nat) (m : Nat) (hrej : HasBits (freezeAtRej (pre.any isFreezeTiming) h) m) :
    ∃ a' r, handleNonRead a 11 seq frameId (pre ++ h :: post) raw = some (a', some r) ∧ r.ctrl.seq = seq ∧
      HasBits r.iin2 m :=
  @Dnp3.Proofs.C12.rejection_flagged_freeze_at_time_nonread a seq frameId pre h post raw m hrej

-- the hypothesis is satisfiable: a rejected analog header between a valid g50v2 and an accepted counter header
example : freezeAtRej (([⟨50, 2, 7, 1, 0, []⟩] : List ObjHdr).any isFreezeTiming) ⟨30, 0, 6, 0, 0, []⟩ = iin2NoFunc := by decide

end Dnp3.Props.C12
