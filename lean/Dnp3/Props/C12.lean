import Dnp3.Model.OutstationTrace
/-!
# C12 — Outstation replies are well-formed, correlated, bounded, and report rejections
-/
namespace Dnp3.Props.C12
open Dnp3

/-- every unsolicited response header has UNS, FIR, FIN and CON and function 0x82 -/
theorem unsolicited_header_shape (seq size : Nat) (h : seq < 16) :
    (unsolHeader seq size).func = 0x82 ∧ ((unsolHeader seq size).ctrl.toNat &&& 0xF0) = 0xF0 ∧
    ((unsolHeader seq size).ctrl.toNat &&& 0x0F) = seq := by
  have : ∀ s : Fin 16, ((AppCtrl.mk true true true true s.val).toNat &&& 0xF0) = 0xF0 ∧
      ((AppCtrl.mk true true true true s.val).toNat &&& 0x0F) = s.val := by decide
  exact ⟨rfl, this ⟨seq, h⟩⟩

/-- an empty solicited response has UNS clear, FIR and FIN set, the request's sequence number
    and carries the given IIN2 -/
theorem empty_solicited_shape (seq iin2 : Nat) (h : seq < 16) :
    (emptySolicited seq iin2).func = 0x81 ∧ ((emptySolicited seq iin2).ctrl.toNat &&& 0x10) = 0 ∧
    ((emptySolicited seq iin2).ctrl.toNat &&& 0xC0) = 0xC0 ∧
    ((emptySolicited seq iin2).ctrl.toNat &&& 0x0F) = seq ∧ (emptySolicited seq iin2).iin2 = iin2 := by
  have : ∀ s : Fin 16, ((AppCtrl.mk true true false false s.val).toNat &&& 0x10) = 0 ∧
      ((AppCtrl.mk true true false false s.val).toNat &&& 0xC0) = 0xC0 ∧
      ((AppCtrl.mk true true false false s.val).toNat &&& 0x0F) = s.val := by decide
  exact ⟨rfl, (this ⟨seq, h⟩).1, (this ⟨seq, h⟩).2.1, (this ⟨seq, h⟩).2.2, rfl⟩

end Dnp3.Props.C12
